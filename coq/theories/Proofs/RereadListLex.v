(* LIST VERSION of RereadLex.v: the same development over the event stream of RereadListTree.v, which enters lists
   (comment entries inside dicts that are list items, at any nesting).  Statements and proofs are those of RereadLex.v
   with the cases of the list skeleton events (ELOpen / EIOpen / EDOpen / ELEnd) added and the tree recursions entering
   lists; see RereadList.v for the interface. *)
(* C03 / C12 on documents with comments, part 4: the lexer on the written text.
   Line comments and block comments are lifted out of the text (each comment sits on a line of its own) and replaced by
   fresh placeholders (or by nothing when comments are switched off); what remains is the text of a document whose
   comment entries are placeholder tokens, which the rest of the pipeline treats as in the comment-free case. *)
From Coq Require Import String.
From Coq Require Import NArith ZArith List Bool Lia ZifyBool ZifyN ZifyNat.
From DictIO Require Import Chars Str Value Scalar KeyPath SDict Layout Lexer TokParser TreeSpec NativeSpec LayoutSpec E2ESpec.
From DictIO Require ScalarProofs SDictProofs TokProofs LayoutProofs SemProofs QuoteProofs KeyPathProofs.
From DictIO Require Import E2EProofs E2EHoles E2EInsert E2EKeyTok E2EFullProofs RereadStr RereadListTree.
Import ListNotations.
Import LayoutProofs.
Open Scope N_scope.

(* ================================================================================================ *)
(* 1. the abstract text of an event                                                                 *)
(* ================================================================================================ *)

(* the abstract text of a run of scalar items *)
Definition rabs (lvl len idx : nat) (first : bool) (run : list scalar) : list N :=
  gitems lfa llw lvl len (map Leaf run) idx first.

Lemma run_expand lvl len idx first run R (Y : list N) : forallb writable_leaf run = true ->
  expandL (map format_string (flat_map qstr run) ++ R) (rabs lvl len idx first run ++ Y) = rtext lvl len idx first run ++ expandL R Y.
Proof.
  intros H. unfold rabs, rtext. rewrite <- qstrs_run, fitems_real.
  apply (Wd_items (map Leaf run)); [|exact (ktree_run run H)]. apply Forall_leaves. intros v. apply Wd_all.
Qed.
Lemma run_aok lvl len idx first run : forallb writable_leaf run = true -> aok (length (flat_map qstr run)) (rabs lvl len idx first run).
Proof.
  intros H. unfold rabs. rewrite <- qstrs_run.
  apply (Qa_items (map Leaf run)); [|exact (ktree_run run H)]. apply Forall_leaves. intros v. apply Qa_all.
Qed.
Lemma run_qlit run : forallb writable_leaf run = true -> Forall qlit (flat_map qstr run).
Proof. intros H. rewrite <- qstrs_run. exact (qstrs_qlit (Lst (map Leaf run)) (ktree_run run H)). Qed.

Definition ev_abs (e : ev) : list N :=
  match e with
  | ELeaf lvl k v => line lvl (FK k ++ spaces (Nat.max 8 (30 - length (FK k) - 4 * lvl)) ++ lfa v ++ [c_semi]) true
  | EOpen lvl k => line lvl (key_text k) true ++ line lvl [c_lbrace] true
  | EClose lvl => line lvl [c_rbrace] true
  | ECm lvl n x => line lvl x true
  | ELOpen lvl k => line lvl (key_text k) true ++ line lvl [c_lpar] true
  | EIOpen lvl len idx first run => rabs lvl len idx first run ++ line (S lvl) [c_lpar] true
  | EDOpen lvl len idx first run => rabs lvl len idx first run ++ line (S lvl) [] true ++ line (S lvl) [c_lbrace] true
  | ELEnd lvl anc len idx first run => rabs lvl len idx first run ++ line lvl (close_txt anc) true
  end.

(* events whose comment entries are word tokens *)
Definition ev_okT (e : ev) : Prop :=
  match e with ECm _ _ x => forallb tchar x = true | _ => ev_ok e end.

Lemma tc_close lvl anc : forallb tchar (line lvl (close_txt anc) true) = true.
Proof. apply tc_line. destruct anc; reflexivity. Qed.

Lemma ev_expand e R (Y : list N) : ev_okT e ->
  expandL (map format_string (ev_lits e) ++ R) (ev_abs e ++ Y) = ev_text cm_line e ++ expandL R Y.
Proof.
  intros He. destruct e as [lvl k v|lvl k|lvl|lvl n x|lvl k|lvl len idx first run|lvl len idx first run|lvl anc len idx first run];
    cbn [ev_okT ev_ok ev_abs ev_text ev_lits] in *.
  - destruct He as [Hk Hv]. destruct (simple_key_text k Hk) as [_ Hkc]. unfold leaf_line, line, indent_of. rewrite <- !app_assoc.
    rewrite (app_assoc (spaces (4 * lvl)) (FK k)), (app_assoc (spaces (4 * lvl) ++ FK k)).
    rewrite (app_assoc (spaces (4 * lvl)) (FK k)), (app_assoc (spaces (4 * lvl) ++ FK k)).
    change ([c_semi] ++ [c_lf] ++ ?z) with ([c_semi; c_lf] ++ z).
    rewrite (Wd_leaf_txt v _ [c_semi; c_lf] R Y Hv); [reflexivity| |reflexivity].
    apply tc_app; [apply tc_app; [apply tc_spaces|exact Hkc]|apply tc_spaces].
  - destruct (simple_key_text k He) as [Hkx Hkc]. rewrite Hkx, <- !app_assoc. cbn [map app].
    rewrite (exp_plain _ (line lvl (FK k) true)) by (apply tc_line; exact Hkc).
    rewrite (exp_plain _ (line lvl [c_lbrace] true)) by (apply tc_line; reflexivity). reflexivity.
  - cbn [map app]. rewrite (exp_plain _ (line lvl [c_rbrace] true)) by (apply tc_line; reflexivity). reflexivity.
  - cbn [map app]. unfold cm_line. rewrite (exp_plain _ (line lvl x true)) by (apply tc_line; exact He). reflexivity.
  - destruct (simple_key_text k He) as [Hkx Hkc]. rewrite Hkx, <- !app_assoc. cbn [map app].
    rewrite (exp_plain _ (line lvl (FK k) true)) by (apply tc_line; exact Hkc).
    rewrite (exp_plain _ (line lvl [c_lpar] true)) by (apply tc_line; reflexivity). reflexivity.
  - rewrite <- !app_assoc, (run_expand lvl len idx first run R _ He).
    rewrite (exp_plain _ (line (S lvl) [c_lpar] true)) by (apply tc_line; reflexivity). reflexivity.
  - rewrite <- !app_assoc, (run_expand lvl len idx first run R _ He).
    rewrite (exp_plain _ (line (S lvl) [] true)) by (apply tc_line; reflexivity).
    rewrite (exp_plain _ (line (S lvl) [c_lbrace] true)) by (apply tc_line; reflexivity). reflexivity.
  - rewrite <- !app_assoc, (run_expand lvl len idx first run R _ He).
    rewrite (exp_plain _ (line lvl (close_txt anc) true)) by apply tc_close. reflexivity.
Qed.

Lemma ev_aok e : ev_okT e -> aok (length (ev_lits e)) (ev_abs e).
Proof.
  intros He. destruct e as [lvl k v|lvl k|lvl|lvl n x|lvl k|lvl len idx first run|lvl len idx first run|lvl anc len idx first run];
    cbn [ev_okT ev_ok ev_abs ev_lits length] in *.
  - destruct He as [Hk Hv]. destruct (simple_key_text k Hk) as [_ Hkc]. unfold line, indent_of.
    apply aok_plain_app; [apply tc_spaces|]. rewrite <- !app_assoc. apply aok_plain_app; [exact Hkc|]. apply aok_plain_app; [apply tc_spaces|].
    replace (length (qstr v)) with (length (qstr v) + 0)%nat by lia. apply aok_app; [apply aok_leaf; exact Hv|]. apply aok_plain. reflexivity.
  - destruct (simple_key_text k He) as [Hkx Hkc]. rewrite Hkx. apply aok_plain. apply tc_app; apply tc_line; [exact Hkc|reflexivity].
  - apply aok_plain. apply tc_line. reflexivity.
  - apply aok_plain. apply tc_line. exact He.
  - destruct (simple_key_text k He) as [Hkx Hkc]. rewrite Hkx. apply aok_plain. apply tc_app; apply tc_line; [exact Hkc|reflexivity].
  - replace (length (flat_map qstr run)) with (length (flat_map qstr run) + 0)%nat by lia.
    apply aok_app; [exact (run_aok lvl len idx first run He)|]. apply aok_plain. apply tc_line. reflexivity.
  - replace (length (flat_map qstr run)) with (length (flat_map qstr run) + 0)%nat by lia.
    apply aok_app; [exact (run_aok lvl len idx first run He)|]. apply aok_plain. apply tc_app; apply tc_line; reflexivity.
  - replace (length (flat_map qstr run)) with (length (flat_map qstr run) + 0)%nat by lia.
    apply aok_app; [exact (run_aok lvl len idx first run He)|]. apply aok_plain. apply tc_close.
Qed.

Lemma ev_lits_qlit e : ev_okT e -> Forall qlit (ev_lits e).
Proof.
  intros He. destruct e as [lvl k v|lvl k|lvl|lvl n x|lvl k|lvl len idx first run|lvl len idx first run|lvl anc len idx first run];
    cbn [ev_okT ev_ok ev_lits] in *; try constructor; try exact (run_qlit run He).
  exact (qstrs_qlit (Leaf v) (proj2 He)).
Qed.

(* the whole document *)
Definition cat_abs (es : list ev) : list N := flat_map ev_abs es.

Lemma cat_expand es : Forall ev_okT es -> forall R, expandL (map format_string (lits es) ++ R) (cat_abs es) = cat cm_line es ++ expandL R [].
Proof.
  induction 1 as [|e es He _ IH]; intros R; [reflexivity|].
  unfold lits, cat_abs in *. cbn [flat_map]. rewrite map_app, <- app_assoc, cat_cons, (ev_expand e _ _ He), IH, <- app_assoc. reflexivity.
Qed.

Lemma cat_aok es : Forall ev_okT es -> aok (length (lits es)) (cat_abs es).
Proof.
  induction 1 as [|e es He _ IH]; [split; reflexivity|]. unfold lits, cat_abs in *. cbn [flat_map]. rewrite app_length.
  apply aok_app; [exact (ev_aok e He)|exact IH].
Qed.

Lemma lits_qlit es : Forall ev_okT es -> Forall qlit (lits es).
Proof.
  induction 1 as [|e es He _ IH]; [constructor|]. unfold lits in *. cbn [flat_map]. apply Forall_app. split; [exact (ev_lits_qlit e He)|exact IH].
Qed.

(* ================================================================================================ *)
(* 2. texts in which the comment passes find nothing                                                *)
(* ================================================================================================ *)

Lemma rts_ends_lf (X : list N) : remove_trailing_spaces (X ++ [c_lf]) = remove_trailing_spaces X ++ [c_lf] \/
  exists Y, remove_trailing_spaces (X ++ [c_lf]) = Y ++ [c_lf].
Proof.
  right. pattern X. apply lines_ind; clear X.
  - intros b Hb. exists (rstrip b). rewrite (rts_line b [] Hb). reflexivity.
  - intros b t Hb [Y EY]. exists (rstrip b ++ c_lf :: Y). rewrite <- app_assoc. cbn [app]. rewrite (rts_line b _ Hb), EY.
    rewrite <- app_assoc. reflexivity.
Qed.

Lemma rts_keeps_lf (X : list N) : ends_lf X -> ends_lf (remove_trailing_spaces X).
Proof.
  intros [-> |(X' & ->)]; [left; reflexivity|]. destruct (rts_ends_lf X') as [E|(Y & E)]; right.
  - exists (remove_trailing_spaces X'). exact E.
  - exists Y. exact E.
Qed.

Record inert (X : list N) : Prop := mkInert {
  in_lf : ends_lf X;
  in_cr : has_char c_cr X = false;
  in_lc : Forall (fun l => nopair c_slash c_slash l = true) (splitlines X);
  in_inc : Forall (fun l => include_line_rest l = None) (splitlines X);
  in_bc : nopair c_slash c_star X = true }.

Lemma ends_lf_line lvl txt : ends_lf (line lvl txt true).
Proof. right. exists (indent_of lvl ++ txt). unfold line. rewrite app_assoc. reflexivity. Qed.

Lemma ev_text_ends_lf e : ends_lf (ev_text cm_line e) /\ ev_text cm_line e <> [].
Proof.
  assert (G : forall lvl txt (X : list N), ends_lf (X ++ line lvl txt true) /\ X ++ line lvl txt true <> []).
  { intros lvl txt X. split.
    - apply ends_lf_app; [apply ends_lf_line|]. unfold line. intros H. apply app_eq_nil in H. destruct H as [_ H].
      apply app_eq_nil in H. destruct H as [_ H]. discriminate H.
    - unfold line. intros H. apply app_eq_nil in H. destruct H as [_ H]. apply app_eq_nil in H. destruct H as [_ H].
      apply app_eq_nil in H. destruct H as [_ H]. discriminate H. }
  destruct e as [lvl k v|lvl k|lvl|lvl n x|lvl k|lvl len idx first run|lvl len idx first run|lvl anc len idx first run]; cbn [ev_text].
  - exact (G lvl _ []).
  - apply G.
  - exact (G lvl _ []).
  - exact (G lvl _ []).
  - apply G.
  - apply G.
  - rewrite app_assoc. apply G.
  - apply G.
Qed.

(* the text of an ordinary statement, trailing spaces removed *)
Lemma ordinary_inert e : ev_okT e -> (match e with ECm _ _ _ => False | _ => True end) ->
  inert (remove_trailing_spaces (ev_text cm_line e)).
Proof.
  intros He Hne.
  pose proof (ev_expand e [] [] He) as Hx. cbn [expandL] in Hx. rewrite !app_nil_r in Hx.
  destruct (ev_aok e He) as [Ha Hn]. pose proof (ev_lits_qlit e He) as Hq.
  set (fs := map format_string (ev_lits e)) in *.
  assert (Hlf : Forall litform fs) by (unfold fs; apply Forall_map_iff; revert Hq; apply Forall_impl; exact qlit_litform).
  assert (Hsol : Forall solid fs) by (revert Hlf; apply Forall_impl; exact litform_solid).
  rewrite <- Hx, (rts_expand _ fs Hsol).
  pose proof (forallb_rts achar _ Ha) as Ha'.
  set (A := remove_trailing_spaces (ev_abs e)) in *. set (W := expandL fs A).
  assert (Hcr : has_char c_cr W = false).
  { apply forallb_nochar. unfold W. apply expandL_forallb.
    - apply achar_ne; [reflexivity|exact Ha'].
    - revert Hlf. apply Forall_impl. intros f Hf. apply (litform_chars _ f Hf).
      + intros q Hq'. destruct (quote_facts q Hq') as (_ & _ & _ & _ & _ & _ & B). rewrite B. reflexivity.
      + intros c Hc. destruct (lit_char_facts c Hc) as (_ & _ & B & _). rewrite B. reflexivity. }
  assert (Hcat : concat (splitlines W) = W) by (exact (concat_splitlines W Hcr [])).
  constructor.
  - unfold W, A. rewrite <- (rts_expand _ fs Hsol), Hx. apply rts_keeps_lf. exact (proj1 (ev_text_ends_lf e)).
  - exact Hcr.
  - apply nopair_lines. rewrite Hcat. unfold W. apply nopair_expand; [left; reflexivity|exact Ha'|exact Hlf].
  - unfold splitlines, W. apply includes_expand; [exact Ha'|exact Hlf|left; constructor].
  - unfold W. apply nopair_expand; [right; reflexivity|exact Ha'|exact Hlf].
Qed.

(* a line that carries a word token *)
Lemma word_line_inert lvl (x : list N) : forallb tchar x = true -> inert (line lvl x true).
Proof.
  intros Hx. assert (Ht : forallb tchar (line lvl x true) = true) by (apply tc_line; exact Hx).
  assert (Hcr : has_char c_cr (line lvl x true) = false) by (apply (tchars_no _ _ Ht); reflexivity).
  assert (Hcat : concat (splitlines (line lvl x true)) = line lvl x true) by (exact (concat_splitlines _ Hcr [])).
  assert (Hl : Forall (fun l => forallb tchar l = true) (splitlines (line lvl x true))) by (apply forallb_concat; rewrite Hcat; exact Ht).
  constructor.
  - apply ends_lf_line.
  - exact Hcr.
  - revert Hl. apply Forall_impl. intros l H. apply nopair_nochar. apply (tchars_no _ _ H). reflexivity.
  - revert Hl. apply Forall_impl. intros l H. apply include_line_rest_none. apply (tchars_no _ _ H). reflexivity.
  - apply nopair_nochar. apply (tchars_no _ _ Ht). reflexivity.
Qed.

(* ================================================================================================ *)
(* 3. _extract_line_comments on a concatenation of lines                                            *)
(* ================================================================================================ *)

(* the comments found, in text order *)
Fixpoint elcL (cm : bool) (c : Z) (ls : list str) : list str * Z * list (N * str) :=
  match ls with
  | [] => ([], c, [])
  | l :: ls' =>
      let '(l', c1, e) := extract_line_comment cm c l in
      let '(rest, c2, xs) := elcL cm c1 ls' in
      (l' :: rest, c2, match e with Some x => x :: xs | None => xs end)
  end.
Fixpoint ins (xs : list (N * str)) (tab : list (N * str)) : list (N * str) :=
  match xs with [] => tab | x :: xs' => tupdate [x] (ins xs' tab) end.

Lemma elc_elcL cm : forall ls c, extract_line_comments cm c ls = let '(r, c', xs) := elcL cm c ls in (r, c', ins xs []).
Proof.
  induction ls as [|l ls IH]; intros c; [reflexivity|]. cbn [extract_line_comments elcL].
  destruct (extract_line_comment cm c l) as [[l' c1] e]. rewrite IH. destruct (elcL cm c1 ls) as [[rest c2] xs].
  destruct e; reflexivity.
Qed.

Lemma elcL_app cm : forall l1 c l2, elcL cm c (l1 ++ l2) =
  let '(r1, c1, x1) := elcL cm c l1 in let '(r2, c2, x2) := elcL cm c1 l2 in (r1 ++ r2, c2, x1 ++ x2).
Proof.
  induction l1 as [|l l1 IH]; intros c l2.
  - cbn [app elcL]. destruct (elcL cm c l2) as [[r2 c2] x2]. reflexivity.
  - cbn [app elcL]. destruct (extract_line_comment cm c l) as [[l' c1] e]. rewrite IH.
    destruct (elcL cm c1 l1) as [[r1 c1'] x1]. destruct (elcL cm c1' l2) as [[r2 c2] x2]. destruct e; reflexivity.
Qed.

Lemma elcL_inert cm (ls : list str) : Forall (fun l => nopair c_slash c_slash l = true) ls -> forall c, elcL cm c ls = (ls, c, []).
Proof.
  induction 1 as [|l ls Hl _ IH]; intros c; [reflexivity|]. cbn [elcL]. rewrite (extract_line_comment_nopair cm c l Hl), IH. reflexivity.
Qed.

Lemma ins_fresh (xs : list (N * str)) : NoDup (map fst xs) -> ins xs [] = xs.
Proof.
  induction xs as [|x xs IH]; intros H; [reflexivity|]. cbn [map] in H. inversion H as [|y ys Hy Hnd]; subst.
  cbn [ins]. rewrite (IH Hnd). apply (tupdate_fresh xs [x]). cbn [app map]. exact H.
Qed.

(* ================================================================================================ *)
(* 4. comment lines                                                                                 *)
(* ================================================================================================ *)

Lemma rstrip_spaces_pre n (b : list N) c b' : b = c :: b' -> is_space c = false -> rstrip (spaces n ++ b) = spaces n ++ rstrip b.
Proof.
  intros Eb Hc. destruct (rstrip_split b) as (q & E & Hq). apply (rstrip_unique _ _ q).
  - rewrite E at 1. rewrite app_assoc. reflexivity.
  - exact Hq.
  - right. destruct (rstrip_last b) as [E0|(r & e & Er & He)].
    + exfalso. rewrite E0 in E. cbn [app] in E. subst b. inversion E as [[E1 E2]]. unfold ws_run in Hq. rewrite <- E1 in Hq.
      inversion Hq as [|x xs Hx _]; subst. rewrite Hx in Hc. discriminate Hc.
    + exists (spaces n ++ r), e. split; [rewrite Er, app_assoc; reflexivity|exact He].
Qed.

Lemma spaces_nochar (c : N) n : (c =? c_sp) = false -> has_char c (spaces n) = false.
Proof. intros H. unfold spaces. induction n as [|n IH]; [reflexivity|]. cbn [repeat]. rewrite has_char_cons, H, IH. reflexivity. Qed.

Lemma first_line (X : list N) : exists b, has_char c_lf b = false /\ (X = b \/ exists t, X = b ++ c_lf :: t).
Proof.
  pattern X. apply lines_ind; clear X.
  - intros b Hb. exists b. split; [exact Hb|left; reflexivity].
  - intros b t Hb _. exists b. split; [exact Hb|right; exists t; reflexivity].
Qed.

Lemma rts_indent n (X : list N) c X' : X = c :: X' -> is_space c = false ->
  remove_trailing_spaces (spaces n ++ X) = spaces n ++ remove_trailing_spaces X.
Proof.
  intros EX Hc. destruct (first_line X) as (b & Hb & [Eb|(t & Eb)]).
  - assert (Hsb : has_char c_lf (spaces n ++ b) = false) by (rewrite has_char_app', Hb, orb_false_r; apply spaces_nochar; reflexivity).
    rewrite Eb, (rts_last b Hb), (rts_last _ Hsb). apply (rstrip_spaces_pre n b c X'); [rewrite <- Eb; exact EX|exact Hc].
  - assert (Hsb : has_char c_lf (spaces n ++ b) = false) by (rewrite has_char_app', Hb, orb_false_r; apply spaces_nochar; reflexivity).
    destruct b as [|c0 b'].
    + cbn [app] in Eb. rewrite Eb in EX. inversion EX; subst c. discriminate Hc.
    + assert (c0 = c) by (rewrite Eb in EX; cbn [app] in EX; inversion EX; reflexivity). subst c0.
      rewrite Eb, app_assoc, (rts_line _ t Hsb), (rts_line _ t Hb), (rstrip_spaces_pre n (c :: b') c b' eq_refl Hc), <- app_assoc. reflexivity.
Qed.

(* a comment line survives remove_trailing_spaces *)
Lemma cm_line_stable lvl (x : str) c x' : x = c :: x' -> is_space c = false ->
  remove_trailing_spaces (x ++ [c_lf]) = x ++ [c_lf] -> remove_trailing_spaces (line lvl x true) = line lvl x true.
Proof.
  intros Ex Hc Hs. unfold line, indent_of. rewrite (rts_indent _ (x ++ [c_lf]) c (x' ++ [c_lf])); [rewrite Hs; reflexivity|rewrite Ex; reflexivity|exact Hc].
Qed.

Lemma lc_ok_inv x : lc_ok x = true ->
  exists rest, x = c_slash :: c_slash :: rest /\ forallb (fun c => negb (is_linebreak c)) x = true /\
               (exists r e, x = r ++ [e] /\ is_space e = false) /\ phfree x = true.
Proof.
  unfold lc_ok. intros H. apply andb_true_iff in H. destruct H as [H H4]. apply andb_true_iff in H. destruct H as [H H3].
  apply andb_true_iff in H. destruct H as [H1 H2].
  destruct x as [|a x1]; [discriminate H1|]. destruct x1 as [|b rest]; [cbn [starts_with] in H1; rewrite andb_false_r in H1; discriminate H1|].
  cbn [starts_with] in H1. apply andb_true_iff in H1. destruct H1 as [Ha H1].
  apply andb_true_iff in H1. destruct H1 as [Hb _]. apply N.eqb_eq in Ha, Hb. subst a b.
  exists rest. split; [reflexivity|]. split; [exact H2|]. split; [|exact H4].
  destruct (rev (c_slash :: c_slash :: rest)) as [|e r] eqn:Er; [discriminate H3|].
  exists (rev r), e. split; [|apply negb_true_iff; exact H3].
  rewrite <- (rev_involutive (c_slash :: c_slash :: rest)), Er. reflexivity.
Qed.

Lemma nolb_nolf (x : list N) : forallb (fun c => negb (is_linebreak c)) x = true -> has_char c_lf x = false /\ has_char c_cr x = false.
Proof.
  intros H. split; apply forallb_nochar; apply forallb_forall; intros c Hc; pose proof (forallb_In _ _ _ H Hc) as Hn; cbn beta in *;
    apply negb_true_iff in Hn; unfold is_linebreak in Hn; uc; lia.
Qed.

Lemma lc_stable x : lc_ok x = true -> remove_trailing_spaces (x ++ [c_lf]) = x ++ [c_lf].
Proof.
  intros H. destruct (lc_ok_inv x H) as (rest & _ & Hlb & (r & e & Er & He) & _). destruct (nolb_nolf x Hlb) as [Hlf _].
  change (x ++ [c_lf]) with (x ++ c_lf :: []). rewrite (rts_line x [] Hlf). cbn [remove_trailing_spaces split_lines_lf split_lines_go flat_map].
  f_equal. rewrite Er. apply rstrip_nonspace_last. exact He.
Qed.

Lemma splitlines_single (b : list N) : forallb (fun c => negb (is_linebreak c)) b = true -> splitlines (b ++ [c_lf]) = [b ++ [c_lf]].
Proof.
  intros H. unfold splitlines. rewrite (splitlines_go_nolb b H [] [c_lf]). cbn [splitlines_go].
  replace (c_lf =? c_cr) with false by reflexivity. replace (is_linebreak c_lf) with true by reflexivity.
  cbn [rev]. rewrite app_nil_r, rev_involutive. reflexivity.
Qed.

Lemma spaces_nolb n : forallb (fun c => negb (is_linebreak c)) (spaces n) = true.
Proof. unfold spaces. induction n as [|n IH]; [reflexivity|]. cbn [repeat forallb]. rewrite IH. reflexivity. Qed.

(* the events of a written document, and of the document after the comment passes *)
Definition ev_lex (e : ev) : Prop :=
  match e with
  | ECm _ n x => (n = w_LINECOMMENT /\ lc_ok x = true) \/ (n = w_BLOCKCOMMENT /\ bc_ok x = true) \/ forallb tchar x = true
  | _ => ev_ok e
  end.

Definition tR (e : ev) : str :=
  match e with ECm lvl _ x => line lvl x true | _ => remove_trailing_spaces (ev_text cm_line e) end.
Definition catR (es : list ev) : str := flat_map tR es.

Lemma bc_ok_inv x : bc_ok x = true ->
  bcgood x = true /\ nopair c_slash c_slash x = true /\ forallb (fun c => negb (is_linebreak c) || (c =? c_lf)) x = true /\
  remove_trailing_spaces (x ++ [c_lf]) = x ++ [c_lf] /\ phfree x = true /\ forallb not_include (splitlines (x ++ [c_lf])) = true.
Proof.
  unfold bc_ok. intros H. apply andb_true_iff in H. destruct H as [H H6]. apply andb_true_iff in H. destruct H as [H H5].
  apply andb_true_iff in H. destruct H as [H H4]. apply andb_true_iff in H. destruct H as [H H3]. apply andb_true_iff in H. destruct H as [H1 H2].
  apply SDictProofs.str_eqb_eq in H4. repeat split; assumption.
Qed.

Lemma bc_chars_nocr (x : list N) : forallb (fun c => negb (is_linebreak c) || (c =? c_lf)) x = true -> has_char c_cr x = false.
Proof.
  intros H. apply forallb_nochar. apply forallb_forall. intros c Hc. pose proof (forallb_In _ _ _ H Hc) as Hn. cbn beta in *.
  destruct (c =? c_cr) eqn:E; [|reflexivity]. apply N.eqb_eq in E. subst c. discriminate Hn.
Qed.

Lemma line_nocr lvl (x : list N) : has_char c_cr x = false -> has_char c_cr (line lvl x true) = false.
Proof.
  intros H. unfold line, indent_of. rewrite !has_char_app', H. cbn [orb]. rewrite orb_false_r. apply tchars_no; [apply tc_spaces|reflexivity].
Qed.

(* every event text ends its line and has no carriage return *)
Lemma tR_shape e : ev_lex e -> ends_lf (tR e) /\ has_char c_cr (tR e) = false.
Proof.
  intros He.
  assert (G : forall e', ev_okT e' -> (match e' with ECm _ _ _ => False | _ => True end) ->
              ends_lf (remove_trailing_spaces (ev_text cm_line e')) /\ has_char c_cr (remove_trailing_spaces (ev_text cm_line e')) = false).
  { intros e' H1 H2. pose proof (ordinary_inert e' H1 H2) as Hi. split; [exact (in_lf _ Hi)|exact (in_cr _ Hi)]. }
  destruct e as [lvl k v|lvl k|lvl|lvl n x|lvl k|lvl len idx first run|lvl len idx first run|lvl anc len idx first run];
    [exact (G (ELeaf lvl k v) He I)|exact (G (EOpen lvl k) He I)|exact (G (EClose lvl) He I)| |exact (G (ELOpen lvl k) He I)
    |exact (G (EIOpen lvl len idx first run) He I)|exact (G (EDOpen lvl len idx first run) He I)|exact (G (ELEnd lvl anc len idx first run) He I)].
  cbn [tR ev_lex] in *. split; [apply ends_lf_line|]. apply line_nocr. destruct He as [[_ H]|[[_ H]|H]].
  - destruct (lc_ok_inv x H) as (_ & _ & Hlb & _). exact (proj2 (nolb_nolf x Hlb)).
  - destruct (bc_ok_inv x H) as (_ & _ & Hc & _). exact (bc_chars_nocr x Hc).
  - apply (tchars_no _ _ H). reflexivity.
Qed.

Lemma catR_cons e es : catR (e :: es) = tR e ++ catR es.
Proof. reflexivity. Qed.

Lemma splitlines_catR e es : ev_lex e -> splitlines (catR (e :: es)) = splitlines (tR e) ++ splitlines (catR es).
Proof. intros He. destruct (tR_shape e He) as [H1 H2]. rewrite catR_cons. apply splitlines_app; assumption. Qed.

Definition ev_lexW (e : ev) : Prop :=
  match e with
  | ECm _ n x => (n = w_LINECOMMENT /\ lc_ok x = true) \/ (n = w_BLOCKCOMMENT /\ bc_ok x = true) \/
                 (forallb tchar x = true /\ word_lexeme x)
  | _ => ev_ok e
  end.

Lemma ev_lexW_lex e : ev_lexW e -> ev_lex e.
Proof. destruct e; cbn [ev_lexW ev_lex]; try tauto. Qed.

Lemma word_stable (x : list N) : word_lexeme x -> exists c x', x = c :: x' /\ is_space c = false /\
  remove_trailing_spaces (x ++ [c_lf]) = x ++ [c_lf].
Proof.
  intros [Hne Hall]. destruct x as [|c x']; [congruence|]. exists c, x'. split; [reflexivity|].
  pose proof Hall as Hall'. rewrite Forall_forall in Hall'. split; [exact (proj1 (Hall' c (or_introl eq_refl)))|].
  assert (Hlf : has_char c_lf (c :: x') = false).
  { apply forallb_nochar. apply forallb_forall. intros y Hy. cbn beta. destruct (y =? c_lf) eqn:E; [|reflexivity].
    apply N.eqb_eq in E. subst y. destruct (Hall' c_lf Hy) as [Hs _]. discriminate Hs. }
  change ((c :: x') ++ [c_lf]) with ((c :: x') ++ c_lf :: []). rewrite (rts_line _ [] Hlf). f_equal.
  destruct (exists_last (l := c :: x') ltac:(discriminate)) as (r & e & Er). rewrite Er. apply rstrip_nonspace_last.
  apply (Hall' e). rewrite Er. apply in_or_app. right. left. reflexivity.
Qed.

Lemma rts_cat es : Forall ev_lexW es -> remove_trailing_spaces (cat cm_line es) = catR es.
Proof.
  induction 1 as [|e es He _ IH]; [reflexivity|]. rewrite cat_cons, catR_cons, rts_app by exact (proj1 (ev_text_ends_lf e)).
  rewrite IH. f_equal. destruct e as [lvl k v|lvl k|lvl|lvl n x|lvl k|lvl len idx first run|lvl len idx first run|lvl anc len idx first run]; try reflexivity.
  cbn [ev_text tR ev_lexW] in *. unfold cm_line. destruct He as [[_ H]|[[_ H]|[_ H]]].
  - destruct (lc_ok_inv x H) as (rest & Ex & _). apply (cm_line_stable lvl x c_slash (c_slash :: rest) Ex eq_refl). exact (lc_stable x H).
  - destruct (bc_ok_inv x H) as (Hg & _ & _ & Hs & _). destruct (bcgood_inv x Hg) as (r & Ex & _).
    apply (cm_line_stable lvl x c_slash (c_star :: r) Ex eq_refl Hs).
  - destruct (word_stable x H) as (c & x' & Ex & Hc & Hs). exact (cm_line_stable lvl x c x' Ex Hc Hs).
Qed.

(* ================================================================================================ *)
(* 5. _extract_line_comments on the written text                                                    *)
(* ================================================================================================ *)

Definition ev_src (e : ev) : Prop :=
  match e with
  | ECm _ n x => (n = w_LINECOMMENT /\ lc_ok x = true) \/ (n = w_BLOCKCOMMENT /\ bc_ok x = true)
  | _ => ev_ok e
  end.

Lemma ev_src_lexW e : ev_src e -> ev_lexW e.
Proof. destruct e; cbn [ev_src ev_lexW]; tauto. Qed.

(* the line comment texts in text order *)
Fixpoint lcx (es : list ev) : list str :=
  match es with
  | [] => []
  | ECm _ n x :: es' => if str_eqb n w_LINECOMMENT then x :: lcx es' else lcx es'
  | _ :: es' => lcx es'
  end.
(* line comments replaced, in text order, by the placeholders of the given ids (by nothing when comments are off) *)
Fixpoint relab (cm : bool) (ks : list N) (es : list ev) : list ev :=
  match es with
  | [] => []
  | ECm lvl n x :: es' =>
      if str_eqb n w_LINECOMMENT then
        match ks with
        | k :: ks' => ECm lvl n (if cm then lph k else []) :: relab cm ks' es'
        | [] => ECm lvl n x :: relab cm [] es'
        end
      else ECm lvl n x :: relab cm ks es'
  | e :: es' => e :: relab cm ks es'
  end.

Lemma cph_tchars w k : cw w -> forallb tchar (placeholder w k) = true.
Proof.
  intros Hw. apply forallb_forall. intros c Hc. pose proof (forallb_In _ _ _ (cph_chars w k Hw) Hc) as H.
  unfold phc in H. tch.
Qed.

Lemma cph_nolb w k : cw w -> forallb (fun c => negb (is_linebreak c)) (placeholder w k) = true.
Proof.
  intros Hw. apply forallb_forall. intros c Hc. pose proof (forallb_In _ _ _ (cph_chars w k Hw) Hc) as H.
  unfold phc in H. cbn beta. unfold is_linebreak. uc. lia.
Qed.

Lemma cph_word w k : cw w -> word_lexeme (placeholder w k).
Proof.
  intros Hw. split; [exact (cph_ne w k Hw)|]. apply Forall_forall. intros c Hc.
  pose proof (forallb_In _ _ _ (cph_chars w k Hw) Hc) as H. unfold phc in H. unfold is_delim. split; uc; lia.
Qed.

Lemma no_colon_spaces n : no_colon_end (spaces n).
Proof.
  unfold no_colon_end. destruct (rev (spaces n)) as [|c r] eqn:E; [exact I|].
  assert (Hin : In c (spaces n)) by (apply in_rev; rewrite E; left; reflexivity).
  unfold spaces in Hin. apply repeat_spec in Hin. subst c. reflexivity.
Qed.

Lemma nopair_line (a b : N) lvl (x : list N) : (a =? c_sp) = false -> (b =? c_lf) = false -> nopair a b x = true ->
  nopair a b (line lvl x true) = true.
Proof.
  intros Ha Hb Hx. unfold line, indent_of. apply nopair_app_l.
  - apply nopair_nochar. apply spaces_nochar. exact Ha.
  - apply nopair_app_r; [exact Hx|reflexivity|]. change ((c_lf =? b) = false). rewrite N.eqb_sym. exact Hb.
  - intros r Hr. assert (Hin : In a (spaces (4 * lvl))) by (rewrite Hr; apply in_or_app; right; left; reflexivity).
    unfold spaces in Hin. apply repeat_spec in Hin. subst a. discriminate Ha.
Qed.

Lemma ids_S c n : ids c (S n) = Z.to_N (counter_next c) :: ids (counter_next c) n.
Proof. reflexivity. Qed.

Lemma relab_lex cm : forall es ks, Forall ev_src es -> Forall ev_lex (relab cm ks es).
Proof.
  induction es as [|e es IH]; intros ks H; [constructor|]. inversion H as [|e' es' He Hes]; subst.
  destruct e as [lvl k v|lvl k|lvl|lvl n x|lvl k|lvl len idx first run|lvl len idx first run|lvl anc len idx first run]; cbn [relab]; try (constructor; [exact He|exact (IH ks Hes)]).
  destruct (str_eqb n w_LINECOMMENT).
  - destruct ks as [|k ks]; (constructor; [|exact (IH _ Hes)]).
    + cbn [ev_lex]. cbn [ev_src] in He. tauto.
    + cbn [ev_lex]. right. right. destruct cm; [apply cph_tchars; left; reflexivity|reflexivity].
  - constructor; [|exact (IH ks Hes)]. cbn [ev_lex]. cbn [ev_src] in He. tauto.
Qed.

Lemma elc_events cm : forall es c, Forall ev_src es ->
  elcL cm c (splitlines (catR es)) =
  (splitlines (catR (relab cm (ids c (length (lcx es))) es)), cafter c (length (lcx es)), combine (ids c (length (lcx es))) (lcx es)).
Proof.
  induction es as [|e es IH]; intros c H; [reflexivity|]. inversion H as [|e' es' He Hes]; subst.
  pose proof (ev_lexW_lex e (ev_src_lexW e He)) as Hlex.
  assert (Gord : forall e0 : ev, ev_lex e0 -> Forall (fun l => nopair c_slash c_slash l = true) (splitlines (tR e0)) ->
            lcx (e0 :: es) = lcx es -> (forall ks, relab cm ks (e0 :: es) = e0 :: relab cm ks es) ->
            elcL cm c (splitlines (catR (e0 :: es))) =
            (splitlines (catR (relab cm (ids c (length (lcx (e0 :: es)))) (e0 :: es))), cafter c (length (lcx (e0 :: es))),
             combine (ids c (length (lcx (e0 :: es)))) (lcx (e0 :: es)))).
  { intros e0 Hl0 Hn0 El Er. rewrite El, Er, !(splitlines_catR e0 _ Hl0), elcL_app, (elcL_inert cm _ Hn0 c), (IH c Hes). reflexivity. }
  destruct e as [lvl k v|lvl k|lvl|lvl n x|lvl k|lvl len idx first run|lvl len idx first run|lvl anc len idx first run].
  all: try (apply Gord; [exact Hlex| |reflexivity|reflexivity];
        match goal with |- Forall _ (splitlines (tR ?e0)) => exact (in_lc _ (ordinary_inert e0 He I)) end).
  cbn [ev_src] in He. destruct He as [[-> Hx]|[-> Hx]].
  - (* a line comment *)
    destruct (lc_ok_inv x Hx) as (rest & Ex & Hlb & _ & _). destruct (nolb_nolf x Hlb) as [Hlf _].
    assert (El : lcx (ECm lvl w_LINECOMMENT x :: es) = x :: lcx es) by reflexivity.
    rewrite El. cbn [length]. rewrite ids_S. cbn [relab]. replace (str_eqb w_LINECOMMENT w_LINECOMMENT) with true by reflexivity.
    set (k := Z.to_N (counter_next c)).
    assert (Hlex' : ev_lex (ECm lvl w_LINECOMMENT (if cm then lph k else []))).
    { cbn [ev_lex]. right. right. destruct cm; [apply cph_tchars; left; reflexivity|reflexivity]. }
    rewrite (splitlines_catR _ _ Hlex), (splitlines_catR _ _ Hlex'). cbn [tR].
    assert (S1 : splitlines (line lvl x true) = [line lvl x true]).
    { unfold line, indent_of. rewrite app_assoc. apply splitlines_single. rewrite forallb_app. apply andb_true_iff. split; [apply spaces_nolb|exact Hlb]. }
    assert (S2 : splitlines (line lvl (if cm then lph k else []) true) = [line lvl (if cm then lph k else []) true]).
    { unfold line, indent_of. rewrite app_assoc. apply splitlines_single. rewrite forallb_app. apply andb_true_iff. split; [apply spaces_nolb|].
      destruct cm; [apply cph_nolb; left; reflexivity|reflexivity]. }
    rewrite S1, S2. cbn [app elcL].
    assert (Ext : extract_line_comment cm c (line lvl x true) =
                  (line lvl (if cm then lph k else []) true, counter_next c, Some (k, x))).
    { unfold line, indent_of. rewrite Ex.
      rewrite (extract_line_comment_gen cm (spaces (4 * lvl)) rest [c_lf] c).
      - reflexivity.
      - apply spaces_nochar. reflexivity.
      - apply no_colon_spaces.
      - unfold no_lf. rewrite Ex in Hlf. rewrite !has_char_cons in Hlf. apply orb_false_iff in Hlf. destruct Hlf as [_ Hlf].
        apply orb_false_iff in Hlf. exact (proj2 Hlf).
      - apply spaces_nochar. reflexivity.
      - right. reflexivity. }
    rewrite Ext, (IH (counter_next c) Hes). reflexivity.
  - (* a block comment: its lines carry no line comment *)
    apply Gord; [exact Hlex| |reflexivity|reflexivity]. cbn [tR].
    destruct (bc_ok_inv x Hx) as (_ & Hn & Hc & _). apply nopair_lines.
    unfold splitlines. rewrite (concat_splitlines _ (line_nocr lvl x (bc_chars_nocr x Hc)) []). cbn [rev app].
    apply nopair_line; [reflexivity|reflexivity|exact Hn].
Qed.

(* ================================================================================================ *)
(* 6. _extract_includes finds nothing                                                               *)
(* ================================================================================================ *)

Lemma splitlines_go_ne (X : list N) : forall cur, X <> [] -> splitlines_go cur X <> [].
Proof.
  induction X as [|c X IH]; intros cur H; [congruence|]. cbn [splitlines_go].
  destruct (c =? c_cr); [destruct X as [|d X']; [discriminate|destruct (d =? c_lf); discriminate]|].
  destruct (is_linebreak c); [discriminate|]. destruct X as [|d X']; [cbn [splitlines_go]; discriminate|]. apply IH. discriminate.
Qed.

Lemma splitlines_go_cur (X : list N) : forall cur, has_char c_cr X = false -> X <> [] ->
  splitlines_go cur X = match splitlines_go [] X with l :: r => (rev cur ++ l) :: r | [] => [] end.
Proof.
  induction X as [|c X IH]; intros cur Hcr Hne; [congruence|].
  rewrite has_char_cons in Hcr. apply orb_false_iff in Hcr. destruct Hcr as [Hc HX]. rewrite N.eqb_sym in Hc.
  cbn [splitlines_go]. rewrite Hc. destruct (is_linebreak c).
  - cbn [rev app]. reflexivity.
  - destruct X as [|d X'].
    + cbn [splitlines_go rev app]. reflexivity.
    + rewrite (IH (c :: cur) HX ltac:(discriminate)), (IH [c] HX ltac:(discriminate)).
      destruct (splitlines_go [] (d :: X')) as [|l r] eqn:E; [exfalso; exact (splitlines_go_ne (d :: X') [] ltac:(discriminate) E)|].
      cbn [rev app]. rewrite <- app_assoc. reflexivity.
Qed.

Lemma include_spaces n (l : list N) : include_line_rest (spaces n ++ l) = include_line_rest l.
Proof.
  unfold include_line_rest. rewrite lstrip_ws; [reflexivity|]. intros c Hc. unfold spaces in Hc. apply repeat_spec in Hc. subst c. reflexivity.
Qed.

Lemma bc_line_no_include lvl x : bc_ok x = true -> Forall (fun l => include_line_rest l = None) (splitlines (line lvl x true)).
Proof.
  intros Hx. destruct (bc_ok_inv x Hx) as (Hg & _ & Hc & _ & _ & Hi). destruct (bcgood_inv x Hg) as (r & Ex & _).
  unfold line, indent_of. unfold splitlines. rewrite (splitlines_go_nolb _ (spaces_nolb (4 * lvl)) [] (x ++ [c_lf])), app_nil_r.
  rewrite splitlines_go_cur; [| |rewrite Ex; discriminate].
  - rewrite rev_involutive. rewrite forallb_forall in Hi. unfold splitlines in Hi.
    destruct (splitlines_go [] (x ++ [c_lf])) as [|l rest]; [constructor|]. constructor.
    + rewrite include_spaces. specialize (Hi l (or_introl eq_refl)). unfold not_include in Hi. destruct (include_line_rest l); [discriminate Hi|reflexivity].
    + apply Forall_forall. intros l' Hl'. specialize (Hi l' (or_intror Hl')). unfold not_include in Hi. destruct (include_line_rest l'); [discriminate Hi|reflexivity].
  - rewrite has_char_app', (bc_chars_nocr x Hc). reflexivity.
Qed.

(* events after the line comment pass: comment events are block comment texts or word tokens *)
Definition ev_mid (e : ev) : Prop :=
  match e with
  | ECm _ n x => (n = w_BLOCKCOMMENT /\ bc_ok x = true) \/ (n <> w_BLOCKCOMMENT /\ forallb tchar x = true)
  | _ => ev_ok e
  end.

Lemma ev_mid_lex e : ev_mid e -> ev_lex e.
Proof. destruct e; cbn [ev_mid ev_lex]; tauto. Qed.

Lemma relab_mid cm : forall es ks, Forall ev_src es -> length ks = length (lcx es) -> Forall ev_mid (relab cm ks es).
Proof.
  induction es as [|e es IH]; intros ks H Hl; [constructor|]. inversion H as [|e' es' He Hes]; subst.
  destruct e as [lvl k v|lvl k|lvl|lvl n x|lvl k|lvl len idx first run|lvl len idx first run|lvl anc len idx first run]; cbn [relab lcx] in *; try (constructor; [exact He|exact (IH ks Hes Hl)]).
  destruct (str_eqb n w_LINECOMMENT) eqn:En.
  - apply SDictProofs.str_eqb_eq in En. subst n. destruct ks as [|k ks]; [discriminate Hl|]. cbn [length] in Hl.
    constructor; [|apply IH; [exact Hes|lia]]. cbn [ev_mid]. right. split; [discriminate|].
    destruct cm; [apply cph_tchars; left; reflexivity|reflexivity].
  - constructor; [|exact (IH ks Hes Hl)]. cbn [ev_mid]. cbn [ev_src] in He. destruct He as [[-> _]|[-> Hx]]; [discriminate En|]. left. split; [reflexivity|exact Hx].
Qed.

Lemma no_includes es : Forall ev_mid es -> Forall (fun l => include_line_rest l = None) (splitlines (catR es)).
Proof.
  induction 1 as [|e es He _ IH]; [constructor|]. rewrite (splitlines_catR e es (ev_mid_lex e He)). apply Forall_app. split; [|exact IH].
  destruct e as [lvl k v|lvl k|lvl|lvl n x|lvl k|lvl len idx first run|lvl len idx first run|lvl anc len idx first run].
  all: try (match goal with |- Forall _ (splitlines (tR ?e0)) => exact (in_inc _ (ordinary_inert e0 He I)) end).
  cbn [tR ev_mid] in *. destruct He as [[_ Hx]|[_ Hx]]; [exact (bc_line_no_include lvl x Hx)|exact (in_inc _ (word_line_inert lvl x Hx))].
Qed.

Lemma catR_nocr es : Forall ev_lex es -> has_char c_cr (catR es) = false.
Proof.
  induction 1 as [|e es He _ IH]; [reflexivity|]. rewrite catR_cons, has_char_app', IH, (proj2 (tR_shape e He)). reflexivity.
Qed.

(* ================================================================================================ *)
(* 7. _extract_block_comments                                                                       *)
(* ================================================================================================ *)

Lemma nopair_no_start' (a b : N) (X : list N) : forall R, nopair a b X = true -> (forall r, X <> r ++ [a]) ->
  forall j, (j < length X)%nat -> starts_with [a; b] (drop_n j (X ++ R)) = false.
Proof.
  induction X as [|x X IH]; intros R Hn Hl j Hj; [cbn [length] in Hj; lia|].
  destruct j as [|j].
  - cbn [drop_n app]. destruct X as [|y X'].
    + cbn [app starts_with]. destruct (a =? x) eqn:E; [|reflexivity]. apply N.eqb_eq in E. subst x. exfalso. exact (Hl [] eq_refl).
    + cbn [app starts_with]. cbn [nopair] in Hn. apply andb_true_iff in Hn. destruct Hn as [Hn _]. apply negb_true_iff in Hn.
      rewrite andb_true_r, (N.eqb_sym a x), (N.eqb_sym b y). exact Hn.
  - cbn [drop_n app]. apply IH; [exact (nopair_tail _ _ _ _ Hn)| |cbn [length] in Hj; lia].
    intros r Hr. apply (Hl (x :: r)). rewrite Hr. reflexivity.
Qed.

Lemma ends_lf_not_slash (X : list N) : ends_lf X -> forall r, X <> r ++ [c_slash].
Proof.
  intros [-> |(X' & ->)] r Hr.
  - destruct r; discriminate Hr.
  - apply app_inj_tail in Hr. destruct Hr as [_ Hr]. discriminate Hr.
Qed.

(* no block comment text begins inside a text without slash-star *)
Lemma ns_plain (c X : list N) : bcgood c = true -> nopair c_slash c_star X = true -> ends_lf X -> forall R, ns c X R.
Proof.
  intros Hc Hn Hl R i Hi. destruct (bcgood_inv c Hc) as (r & Ec & _).
  destruct (starts_with c (drop_n i (X ++ R))) eqn:E; [|reflexivity]. exfalso.
  rewrite Ec in E. change (c_slash :: c_star :: r) with ([c_slash; c_star] ++ r) in E. apply starts_with_app_l in E.
  rewrite (nopair_no_start' c_slash c_star X R Hn (ends_lf_not_slash X Hl) i Hi) in E. discriminate E.
Qed.

Lemma ns_spaces_bc (c : list N) n R : bcgood c = true -> ns c (spaces n) R.
Proof.
  intros Hc i Hi. destruct (bcgood_inv c Hc) as (r & Ec & _). unfold spaces in *. rewrite repeat_length in Hi.
  rewrite drop_n_app_lt by (rewrite repeat_length; lia).
  assert (E : exists m, drop_n i (repeat c_sp n) = c_sp :: repeat c_sp m).
  { clear -Hi. revert i Hi. induction n as [|n IH]; intros i Hi; [lia|]. destruct i as [|i]; [exists n; reflexivity|].
    cbn [repeat drop_n]. apply IH. lia. }
  destruct E as [m ->]. rewrite Ec. reflexivity.
Qed.

Lemma ns_lf_bc (c : list N) R : bcgood c = true -> ns c [c_lf] R.
Proof.
  intros Hc i Hi. destruct (bcgood_inv c Hc) as (r & Ec & _). cbn [length] in Hi. assert (i = 0%nat) by lia. subst i.
  cbn [drop_n app]. rewrite Ec. reflexivity.
Qed.

(* the block comment texts in text order *)
Fixpoint bcx (es : list ev) : list str :=
  match es with
  | [] => []
  | ECm _ n x :: es' => if str_eqb n w_BLOCKCOMMENT then x :: bcx es' else bcx es'
  | _ :: es' => bcx es'
  end.

Lemma nopair_spaces (a b : N) n : (a =? c_sp) = false -> nopair a b (spaces n) = true.
Proof. intros H. apply nopair_nochar. apply spaces_nochar. exact H. Qed.

Lemma spaces_not_end (a : N) n : (a =? c_sp) = false -> forall r, spaces n <> r ++ [a].
Proof.
  intros Ha r Hr. assert (Hin : In a (spaces n)) by (rewrite Hr; apply in_or_app; right; left; reflexivity).
  unfold spaces in Hin. apply repeat_spec in Hin. subst a. discriminate Ha.
Qed.

Lemma fbc_catR es : Forall ev_mid es -> fbc (catR es) = bcx es.
Proof.
  induction 1 as [|e es He _ IH]; [reflexivity|]. rewrite catR_cons.
  assert (Gord : forall X : list N, nopair c_slash c_star X = true -> ends_lf X -> fbc (X ++ catR es) = bcx es).
  { intros X Hn Hl. rewrite (fbc_skip X _ Hn (ends_lf_not_slash X Hl)). exact IH. }
  destruct e as [lvl k v|lvl k|lvl|lvl n x|lvl k|lvl len idx first run|lvl len idx first run|lvl anc len idx first run].
  all: try (cbn [bcx]; match goal with |- fbc (tR ?e0 ++ _) = _ => pose proof (ordinary_inert e0 He I) as Hi end; apply Gord; [exact (in_bc _ Hi)|exact (in_lf _ Hi)]).
  cbn [tR ev_mid bcx] in *. destruct He as [[-> Hx]|[Hn Hx]].
  - replace (str_eqb w_BLOCKCOMMENT w_BLOCKCOMMENT) with true by reflexivity.
    destruct (bc_ok_inv x Hx) as (Hg & _). destruct (bcgood_inv x Hg) as (r & _ & Hs & _).
    unfold line, indent_of. rewrite <- !app_assoc.
    rewrite (fbc_skip (spaces (4 * lvl)) _ (nopair_spaces c_slash c_star _ eq_refl) (spaces_not_end c_slash _ eq_refl)).
    rewrite (fbc_hit x _ Hs). f_equal. cbn [app]. rewrite fbc_cons_miss; [exact IH|destruct (catR es); reflexivity].
  - assert (En : str_eqb n w_BLOCKCOMMENT = false).
    { destruct (str_eqb n w_BLOCKCOMMENT) eqn:E; [|reflexivity]. apply SDictProofs.str_eqb_eq in E. contradiction. }
    rewrite En. pose proof (word_line_inert lvl x Hx) as Hi. apply Gord; [exact (in_bc _ Hi)|exact (in_lf _ Hi)].
Qed.

(* ---- the replacement fold -------------------------------------------------------------------------- *)
Definition inb (x : str) (tab : list (N * str)) : bool := existsb (fun e => str_eqb (snd e) x) tab.
Definition rlookup (x : str) (tab : list (N * str)) : N :=
  match find (fun e => str_eqb (snd e) x) tab with Some e => fst e | None => 0 end.
(* block comments whose text is in the table are replaced by the placeholder of their id *)
Definition numB (cm : bool) (tab : list (N * str)) (e : ev) : ev :=
  match e with
  | ECm lvl n x => if str_eqb n w_BLOCKCOMMENT && inb x tab then ECm lvl n (if cm then bph (rlookup x tab) else []) else e
  | _ => e
  end.

Lemma inb_app x a b : inb x (a ++ b) = inb x a || inb x b.
Proof. unfold inb. apply existsb_app. Qed.

Lemma rlookup_app_l x a b : inb x a = true -> rlookup x (a ++ b) = rlookup x a.
Proof.
  unfold inb, rlookup. induction a as [|e a IH]; intros H; [discriminate H|]. cbn [existsb app find] in *.
  destruct (str_eqb (snd e) x); [reflexivity|]. apply IH. exact H.
Qed.

Lemma rlookup_app_r x a b : inb x a = false -> rlookup x (a ++ b) = rlookup x b.
Proof.
  unfold inb, rlookup. induction a as [|e a IH]; intros H; [reflexivity|]. cbn [existsb app find] in *.
  apply orb_false_iff in H. destruct H as [H1 H2]. rewrite H1. apply IH. exact H2.
Qed.

Definition btok (cm : bool) (i : N) : str := if cm then bph i else [].
Lemma btok_tchars cm i : forallb tchar (btok cm i) = true.
Proof. unfold btok. destruct cm; [apply cph_tchars; right; reflexivity|reflexivity]. Qed.

Lemma replace_lf (c ph R : list N) : bcgood c = true -> replace_all c ph (c_lf :: R) = c_lf :: replace_all c ph R.
Proof.
  intros Hc. destruct (bcgood_inv c Hc) as (r & Ec & _).
  assert (Hne : c <> []) by (rewrite Ec; discriminate).
  exact (replace_all_skip c ph [c_lf] Hne R (ns_lf_bc c R Hc)).
Qed.

(* one table entry *)
Lemma replace_step cm (done : list (N * str)) i (c : str) : bcgood c = true -> inb c done = false ->
  forall es, Forall ev_mid es ->
  replace_all c (btok cm i) (catR (map (numB cm done) es)) = catR (map (numB cm (done ++ [(i, c)])) es).
Proof.
  intros Hc Hnd. destruct (bcgood_inv c Hc) as (r & Ec & _). assert (Hcne : c <> []) by (rewrite Ec; discriminate).
  induction 1 as [|e es He _ IH]; [apply replace_all_nil|]. cbn [map]. rewrite !catR_cons.
  assert (Gsame : forall e1 : ev, (forall R, ns c (tR e1) R) -> replace_all c (btok cm i) (tR e1 ++ catR (map (numB cm done) es)) =
                                   tR e1 ++ catR (map (numB cm (done ++ [(i, c)])) es)).
  { intros e1 Hns. rewrite (replace_all_skip c _ _ Hcne _ (Hns _)), IH. reflexivity. }
  destruct e as [lvl k v|lvl k|lvl|lvl n x|lvl k|lvl len idx first run|lvl len idx first run|lvl anc len idx first run].
  all: try (cbn [numB]; apply Gsame; intros R; match goal with |- ns _ (tR ?e0) _ => pose proof (ordinary_inert e0 He I) as Hi end;
        apply ns_plain; [exact Hc|exact (in_bc _ Hi)|exact (in_lf _ Hi)]).
  cbn [ev_mid] in He. cbn [numB]. destruct He as [[-> Hx]|[Hn Hx]].
  - replace (str_eqb w_BLOCKCOMMENT w_BLOCKCOMMENT) with true by reflexivity. cbn [andb]. rewrite inb_app.
    destruct (inb x done) eqn:Ed.
    + (* replaced earlier *)
      cbn [orb]. rewrite (rlookup_app_l x done _ Ed). apply Gsame. intros R. cbn [tR].
      pose proof (word_line_inert lvl _ (btok_tchars cm (rlookup x done))) as Hi. fold (btok cm (rlookup x done)).
      apply ns_plain; [exact Hc|exact (in_bc _ Hi)|exact (in_lf _ Hi)].
    + cbn [orb inb existsb snd]. rewrite orb_false_r. destruct (str_eqb c x) eqn:Ecx.
      * (* this comment *)
        apply SDictProofs.str_eqb_eq in Ecx. subst x. rewrite (rlookup_app_r c done _ Ed). unfold rlookup. cbn [find snd fst].
        rewrite ScalarProofs.str_eqb_refl. cbn [tR]. unfold line, indent_of. rewrite <- !app_assoc.
        rewrite (replace_all_skip c _ _ Hcne _ (ns_spaces_bc c _ _ Hc)), (replace_all_hit c _ _ Hcne). cbn [app].
        rewrite (replace_lf c _ _ Hc), IH. reflexivity.
      * (* another comment text *)
        apply Gsame. intros R. cbn [tR]. destruct (bc_ok_inv x Hx) as (Hg & _). unfold line, indent_of.
        apply ns_app; [apply ns_spaces_bc; exact Hc|]. apply ns_app; [|apply ns_lf_bc; exact Hc].
        apply ns_bc; [exact Hc|exact Hg| |reflexivity]. intros ->. rewrite ScalarProofs.str_eqb_refl in Ecx. discriminate Ecx.
  - assert (En : str_eqb n w_BLOCKCOMMENT = false).
    { destruct (str_eqb n w_BLOCKCOMMENT) eqn:E; [|reflexivity]. apply SDictProofs.str_eqb_eq in E. contradiction. }
    rewrite En. cbn [andb]. apply Gsame. intros R. cbn [tR]. pose proof (word_line_inert lvl x Hx) as Hi.
    apply ns_plain; [exact Hc|exact (in_bc _ Hi)|exact (in_lf _ Hi)].
Qed.

Lemma numB_nil cm es : map (numB cm []) es = es.
Proof.
  induction es as [|e es IH]; [reflexivity|]. cbn [map]. rewrite IH. f_equal. destruct e; try reflexivity.
  cbn [numB inb existsb]. rewrite andb_false_r. reflexivity.
Qed.

Lemma fold_replace (cm : bool) : forall (tab done : list (N * str)) es, Forall ev_mid es -> NoDup (map snd (done ++ tab)) ->
  Forall (fun e => bcgood (snd e) = true) tab ->
  fold_left (fun (acc : str) (e : N * str) => replace_all (snd e) (if cm then placeholder w_BLOCKCOMMENT (fst e) else []) acc) tab (catR (map (numB cm done) es)) =
  catR (map (numB cm (done ++ tab)) es).
Proof.
  induction tab as [|[i c] tab IH]; intros done es Hes Hnd Hg; [rewrite app_nil_r; reflexivity|].
  inversion Hg as [|e' t' Hc Hg']; subst. cbn [snd] in Hc. cbn [fold_left fst snd].
  assert (Hnot : inb c done = false).
  { destruct (inb c done) eqn:E; [|reflexivity]. exfalso. unfold inb in E. apply existsb_exists in E. destruct E as ([j c'] & Hin & Ec').
    cbn [snd] in Ec'. apply SDictProofs.str_eqb_eq in Ec'. subst c'.
    rewrite map_app in Hnd. cbn [map snd] in Hnd. apply NoDup_remove_2 in Hnd. apply Hnd. apply in_or_app. left.
    apply in_map_iff. exists (j, c). split; [reflexivity|exact Hin]. }
  change (if cm then placeholder w_BLOCKCOMMENT i else []) with (btok cm i).
  rewrite (replace_step cm done i c Hc Hnot es Hes).
  replace (done ++ (i, c) :: tab) with ((done ++ [(i, c)]) ++ tab) by (rewrite <- app_assoc; reflexivity).
  apply IH; [exact Hes|rewrite <- app_assoc; exact Hnd|exact Hg'].
Qed.

Lemma number_from_snd {A} (l : list A) : forall i, map snd (number_from i l) = l.
Proof. induction l as [|x l IH]; intros i; [reflexivity|]. cbn [number_from map snd]. rewrite IH. reflexivity. Qed.

Lemma bcx_good es : Forall ev_mid es -> Forall (fun x => bcgood x = true) (bcx es).
Proof.
  induction 1 as [|e es He _ IH]; [constructor|]. destruct e as [lvl k v|lvl k|lvl|lvl n x|lvl k|lvl len idx first run|lvl len idx first run|lvl anc len idx first run]; cbn [bcx]; try exact IH.
  destruct (str_eqb n w_BLOCKCOMMENT) eqn:En; [|exact IH]. apply SDictProofs.str_eqb_eq in En. subst n.
  cbn [ev_mid] in He. destruct He as [[_ Hx]|[Hn _]]; [|congruence]. constructor; [exact (proj1 (bc_ok_inv x Hx))|exact IH].
Qed.

(* the block comment pass on the text left by the line comment pass *)
Theorem extract_blocks_events cm es : Forall ev_mid es -> NoDup (bcx es) ->
  extract_block_comments cm (catR es) = (catR (map (numB cm (number_from 0 (bcx es))) es), number_from 0 (bcx es)).
Proof.
  intros Hes Hnd. unfold extract_block_comments. fold (fbc (catR es)). rewrite (fbc_catR es Hes).
  pose proof (fold_replace cm (number_from 0 (bcx es)) [] es Hes) as F. rewrite numB_nil in F. cbn [app] in F.
  rewrite F; [reflexivity|rewrite number_from_snd; exact Hnd|].
  apply Forall_forall. intros e He. pose proof (bcx_good es Hes) as G. rewrite Forall_forall in G. apply G.
  rewrite <- (number_from_snd (bcx es) 0). apply in_map. exact He.
Qed.

(* ================================================================================================ *)
(* 8. the text after the comment passes as a filled abstract text                                   *)
(* ================================================================================================ *)

Definition absR (e : ev) : list N :=
  match e with ECm lvl _ x => line lvl x true | _ => remove_trailing_spaces (ev_abs e) end.
Definition catRabs (es : list ev) : list N := flat_map absR es.

Lemma ev_abs_ends_lf e : ends_lf (ev_abs e).
Proof.
  assert (G : forall lvl txt (X : list N), ends_lf (X ++ line lvl txt true)).
  { intros lvl txt X. apply ends_lf_app; [apply ends_lf_line|]. unfold line. intros H. apply app_eq_nil in H. destruct H as [_ H].
    apply app_eq_nil in H. destruct H as [_ H]. discriminate H. }
  destruct e as [lvl k v|lvl k|lvl|lvl n x|lvl k|lvl len idx first run|lvl len idx first run|lvl anc len idx first run]; cbn [ev_abs].
  - exact (G lvl _ []).
  - apply G.
  - exact (G lvl _ []).
  - exact (G lvl _ []).
  - apply G.
  - apply G.
  - rewrite app_assoc. apply G.
  - apply G.
Qed.

Lemma ev_text_full e R : ev_okT e -> expandL (map format_string (ev_lits e) ++ R) (ev_abs e) = ev_text cm_line e.
Proof.
  intros He. pose proof (ev_expand e R [] He) as H. cbn [expandL] in H. rewrite !app_nil_r in H. exact H.
Qed.

Lemma skipn_app_len {A} (a b : list A) : skipn (length a) (a ++ b) = b.
Proof. induction a as [|x a IH]; [reflexivity|]. cbn [length app skipn]. exact IH. Qed.

Lemma qlits_solid (ls : list str) : Forall qlit ls -> Forall solid (map format_string ls).
Proof. intros H. apply Forall_map_iff. revert H. apply Forall_impl. intros s Hs. apply litform_solid, qlit_litform. exact Hs. Qed.

Lemma tR_expand e R (Y : list N) : ev_okT e -> Forall solid R ->
  expandL (map format_string (ev_lits e) ++ R) (absR e ++ Y) = tR e ++ expandL R Y.
Proof.
  intros He HR.
  assert (Gord : (match e with ECm _ _ _ => False | _ => True end) ->
            expandL (map format_string (ev_lits e) ++ R) (remove_trailing_spaces (ev_abs e) ++ Y) =
            remove_trailing_spaces (ev_text cm_line e) ++ expandL R Y).
  { intros _. destruct (ev_aok e He) as [_ Hn].
    assert (Hsol : Forall solid (map format_string (ev_lits e) ++ R)) by (apply Forall_app; split; [exact (qlits_solid _ (ev_lits_qlit e He))|exact HR]).
    rewrite expandL_app, nh_rts, Hn, <- (map_length format_string (ev_lits e)), skipn_app_len.
    rewrite <- (rts_expand _ _ Hsol), (ev_text_full e R He). reflexivity. }
  destruct e as [lvl k v|lvl k|lvl|lvl n x|lvl k|lvl len idx first run|lvl len idx first run|lvl anc len idx first run]; try exact (Gord I).
  cbn [absR tR ev_lits map app ev_okT] in *. apply exp_plain. apply tc_line. exact He.
Qed.

Lemma catR_expand es : Forall ev_okT es -> forall R, Forall solid R ->
  expandL (map format_string (lits es) ++ R) (catRabs es) = catR es ++ expandL R [].
Proof.
  induction 1 as [|e es He Hes IH]; intros R HR; [reflexivity|].
  unfold lits, catRabs in *. cbn [flat_map]. rewrite map_app, <- app_assoc, catR_cons.
  rewrite (tR_expand e _ _ He).
  - fold (catR es). rewrite (IH R HR), <- app_assoc. reflexivity.
  - apply Forall_app. split; [exact (qlits_solid _ (lits_qlit es Hes))|exact HR].
Qed.

Lemma catRabs_aok es : Forall ev_okT es -> aok (length (lits es)) (catRabs es).
Proof.
  induction 1 as [|e es He _ IH]; [split; reflexivity|]. unfold lits, catRabs in *. cbn [flat_map]. rewrite app_length.
  apply aok_app; [|exact IH]. destruct (ev_aok e He) as [Ha Hn].
  destruct e as [lvl k v|lvl k|lvl|lvl n x|lvl k|lvl len idx first run|lvl len idx first run|lvl anc len idx first run]; cbn [absR]; try (split; [apply forallb_rts; exact Ha|rewrite nh_rts; exact Hn]).
  split; assumption.
Qed.

Lemma rts_catRabs es : remove_trailing_spaces (catRabs es) = remove_trailing_spaces (cat_abs es).
Proof.
  induction es as [|e es IH]; [reflexivity|]. unfold catRabs, cat_abs in *. cbn [flat_map].
  rewrite (rts_app (ev_abs e) _ (ev_abs_ends_lf e)), <- IH.
  destruct e as [lvl k v|lvl k|lvl|lvl n x|lvl k|lvl len idx first run|lvl len idx first run|lvl anc len idx first run]; cbn [absR];
    try (rewrite (rts_app _ _ (rts_keeps_lf _ (ev_abs_ends_lf _))), remove_trailing_spaces_idem; reflexivity).
  cbn [ev_abs]. apply rts_app. apply ends_lf_line.
Qed.

(* ================================================================================================ *)
(* 9. the tokens                                                                                    *)
(* ================================================================================================ *)

(* final events: a comment entry is a word token, or nothing at all (comments off) *)
Definition ev_fin (e : ev) : Prop :=
  match e with ECm _ _ x => forallb tchar x = true /\ (x = [] \/ word_lexeme x) | _ => ev_ok e end.

Lemma ev_fin_okT e : ev_fin e -> ev_okT e.
Proof. destruct e; cbn [ev_fin ev_okT]; tauto. Qed.

(* the tokens of a run of scalar items *)
Definition rtoks (ks : list N) (run : list scalar) : list str := itemsL (labelL ks (map Leaf run)).

Lemma run_toks lvl len idx first run ks (rest : list N) : forallb writable_leaf run = true ->
  (length (flat_map qstr run) <= length ks)%nat -> small ks ->
  brk (expandL (map PH (skipn (length (flat_map qstr run)) ks)) rest) ->
  toks_go [] (expandL (map PH ks) (rabs lvl len idx first run ++ rest)) =
  rtoks ks run ++ toks_go [] (expandL (map PH (skipn (length (flat_map qstr run)) ks)) rest).
Proof.
  intros H Hn Hks Hb. unfold rabs, rtoks.
  assert (Enq : nq (Lst (map Leaf run)) = length (flat_map qstr run)) by (unfold nq; rewrite qstrs_run; reflexivity).
  rewrite <- Enq in *. apply (M_items (map Leaf run)); try assumption; [|exact (ktree_run run H)].
  apply Forall_leaves. intros v. apply Mt_all.
Qed.

Definition ev_tokL (ks : list N) (e : ev) : list str :=
  match e with
  | ELeaf _ k v => [FK k; ltL (lleaf ks v); t_semi]
  | EOpen _ k => [FK k; t_lbrace]
  | EClose _ => [t_rbrace]
  | ECm _ _ x => match x with [] => [] | _ => [x] end
  | ELOpen _ k => [FK k; t_lpar]
  | EIOpen _ _ _ _ run => rtoks ks run ++ [t_lpar]
  | EDOpen _ _ _ _ run => rtoks ks run ++ [t_lbrace]
  | ELEnd _ anc _ _ _ run => rtoks ks run ++ t_rpar :: (if anc then [] else [t_semi])
  end.
Fixpoint evs_tokL (ks : list N) (es : list ev) : list str :=
  match es with [] => [] | e :: es' => ev_tokL ks e ++ evs_tokL (skipn (length (ev_lits e)) ks) es' end.

Lemma ev_toks e ks (rest : list N) : ev_fin e -> (length (ev_lits e) <= length ks)%nat -> small ks ->
  toks_go [] (expandL (map PH ks) (ev_abs e ++ rest)) =
  ev_tokL ks e ++ toks_go [] (expandL (map PH (skipn (length (ev_lits e)) ks)) rest).
Proof.
  intros He Hn Hks. destruct e as [lvl k v|lvl k|lvl|lvl n x|lvl k|lvl len idx first run|lvl len idx first run|lvl anc len idx first run]; cbn [ev_fin ev_ok ev_abs ev_lits ev_tokL] in *.
  - destruct He as [Hk Hv]. destruct (simple_key_text k Hk) as [_ Hkc]. destruct (simple_key_inv k Hk) as (Hkt & _).
    pose proof (simple_tok_word _ Hkt) as Hkw.
    unfold line, indent_of. rewrite <- !app_assoc.
    rewrite (app_assoc (spaces (4 * lvl)) (FK k)), (app_assoc (spaces (4 * lvl) ++ FK k)).
    change ([c_semi] ++ [c_lf] ++ ?z) with ([c_semi; c_lf] ++ z).
    rewrite (M_leaf_txt v _ [c_semi; c_lf] ks _ Hv); [| |reflexivity|exact Hn|exact Hks].
    2:{ apply tc_app; [apply tc_app; [apply tc_spaces|exact Hkc]|apply tc_spaces]. }
    pose proof (tk_line_kv lvl (FK k) (ltL (lleaf ks v))
                  (expandL (map PH (skipn (length (qstr v)) ks)) rest)
                  (Nat.max 8 (30 - length (FK k) - 4 * lvl)) Hkw (lleaf_word v ks Hv Hn Hks) ltac:(lia)) as Htk.
    unfold line, indent_of in Htk. rewrite <- !app_assoc in Htk. cbn [app] in Htk. cbn [app].
    rewrite <- !app_assoc. rewrite Htk. reflexivity.
  - destruct (simple_key_text k He) as [Hkx Hkc]. destruct (simple_key_inv k He) as (Hkt & _).
    pose proof (simple_tok_word _ Hkt) as Hkw. rewrite Hkx, <- !app_assoc. cbn [length skipn].
    rewrite (exp_plain _ (line lvl (FK k) true)) by (apply tc_line; exact Hkc).
    rewrite (exp_plain _ (line lvl [c_lbrace] true)) by (apply tc_line; reflexivity).
    rewrite (tk_line_word lvl _ _ Hkw), (tk_line_delim lvl c_lbrace _ eq_refl). reflexivity.
  - cbn [length skipn]. rewrite (exp_plain _ (line lvl [c_rbrace] true)) by (apply tc_line; reflexivity).
    rewrite (tk_line_delim lvl c_rbrace _ eq_refl). reflexivity.
  - cbn [length skipn]. destruct He as [Ht Hw]. rewrite (exp_plain _ (line lvl x true)) by (apply tc_line; exact Ht).
    destruct Hw as [-> |Hw]; [rewrite tk_line_empty; reflexivity|].
    rewrite (tk_line_word lvl _ _ Hw). destruct x; [destruct Hw; congruence|reflexivity].
  - destruct (simple_key_text k He) as [Hkx Hkc]. destruct (simple_key_inv k He) as (Hkt & _).
    pose proof (simple_tok_word _ Hkt) as Hkw. rewrite Hkx, <- !app_assoc. cbn [length skipn].
    rewrite (exp_plain _ (line lvl (FK k) true)) by (apply tc_line; exact Hkc).
    rewrite (exp_plain _ (line lvl [c_lpar] true)) by (apply tc_line; reflexivity).
    rewrite (tk_line_word lvl _ _ Hkw), (tk_line_delim lvl c_lpar _ eq_refl). reflexivity.
  - rewrite <- !app_assoc.
    assert (Hp : forall fs, expandL fs (line (S lvl) [c_lpar] true ++ rest) = line (S lvl) [c_lpar] true ++ expandL fs rest)
      by (intros fs; apply exp_plain; apply tc_line; reflexivity).
    rewrite (run_toks lvl len idx first run ks _ He Hn Hks) by (rewrite Hp; apply brk_line_S).
    rewrite Hp, (tk_line_delim (S lvl) c_lpar _ eq_refl). cbn [app]. reflexivity.
  - rewrite <- !app_assoc.
    assert (Hp : forall fs, expandL fs (line (S lvl) [] true ++ line (S lvl) [c_lbrace] true ++ rest) =
                            line (S lvl) [] true ++ line (S lvl) [c_lbrace] true ++ expandL fs rest).
    { intros fs. rewrite (exp_plain _ (line (S lvl) [] true)) by (apply tc_line; reflexivity).
      rewrite (exp_plain _ (line (S lvl) [c_lbrace] true)) by (apply tc_line; reflexivity). reflexivity. }
    rewrite (run_toks lvl len idx first run ks _ He Hn Hks) by (rewrite Hp; apply brk_line_S).
    rewrite Hp, tk_line_empty, (tk_line_delim (S lvl) c_lbrace _ eq_refl). cbn [app]. reflexivity.
  - rewrite <- !app_assoc.
    assert (Hp : forall fs, expandL fs (line lvl (close_txt anc) true ++ rest) = line lvl (close_txt anc) true ++ expandL fs rest)
      by (intros fs; apply exp_plain; apply tc_close).
    rewrite (run_toks lvl len idx first run ks _ He Hn Hks) by (rewrite Hp; apply brk_close).
    rewrite Hp. unfold close_txt. rewrite tk_line_close. reflexivity.
Qed.

Lemma evs_toks es : Forall ev_fin es -> forall ks, (length (lits es) <= length ks)%nat -> small ks ->
  toks_go [] (expandL (map PH ks) (cat_abs es)) = evs_tokL ks es.
Proof.
  induction 1 as [|e es He _ IH]; intros ks Hn Hks; [reflexivity|].
  unfold lits, cat_abs in *. cbn [flat_map evs_tokL] in *. rewrite app_length in Hn.
  rewrite (ev_toks e ks _ He ltac:(lia) Hks). f_equal. apply IH; [rewrite skipn_length; lia|apply small_skipn; exact Hks].
Qed.

Lemma toks_surgery es : Forall ev_fin es -> forall ks, (length (lits es) <= length ks)%nat -> small ks ->
  toks_go [] (expandL (map PH ks) (remove_line_endings (catRabs es))) = evs_tokL ks es.
Proof.
  intros Hes ks Hn Hks. pose proof (PHs_solid ks) as Hsol.
  rewrite <- (rle_expand _ _ Hsol), remove_line_endings_eq, tg_strip, tg_map.
  rewrite <- tg_rts, (rts_expand _ _ Hsol), rts_catRabs, <- (rts_expand _ _ Hsol), tg_rts.
  exact (evs_toks es Hes ks Hn Hks).
Qed.

(* a text that begins with a word character: the token list is the scanner's, possibly with the empty token that
   re.split leaves behind a final delimiter *)
Lemma tokens_gen (c : N) (rest : list N) : is_space c = false -> is_delim c = false ->
  exists tl, (tl = [] \/ tl = [[]]) /\ tokenize (separate_delimiters (c :: rest)) = toks_go [] (c :: rest) ++ tl.
Proof.
  intros Hs Hd. exists (if trail false (pad_delims rest) then [[]] else []). split; [destruct (trail false (pad_delims rest)); [right|left]; reflexivity|].
  unfold tokenize, separate_delimiters, split_ws.
  change (c :: rest) with ([c] ++ rest). rewrite pad_delims_app.
  unfold pad_delims at 1. cbn [flat_map]. rewrite Hd. cbn [app collapse_ws]. rewrite Hs.
  cbn [split_ws_go]. rewrite Hs.
  rewrite (proj1 (unfiltered (pad_delims rest)) [c]) by discriminate.
  rewrite pad_words. cbn [toks_go]. rewrite Hs, Hd. reflexivity.
Qed.

Lemma toks_go_first (c : N) (rest : list N) : is_space c = false ->
  exists t ts, toks_go [] (c :: rest) = t :: ts /\ (is_delim c = true -> t = [c]).
Proof.
  intros Hs. destruct (is_delim c) eqn:Hd.
  - exists [c], (toks_go [] rest). split; [apply toks_go_delim; exact Hd|reflexivity].
  - assert (G : forall (s cur : list N), cur <> [] -> exists t ts, toks_go cur s = t :: ts).
    { induction s as [|x s IH]; intros cur Hc.
      - destruct cur; [congruence|]. cbn [toks_go emit]. eauto.
      - cbn [toks_go]. destruct (is_space x); [destruct cur; [congruence|cbn [emit]; eauto]|].
        destruct (is_delim x); [destruct cur; [congruence|cbn [emit]; eauto]|]. apply IH. discriminate. }
    cbn [toks_go]. rewrite Hs, Hd. destruct (G rest [c] ltac:(discriminate)) as (t & ts & E). exists t, ts. split; [exact E|discriminate].
Qed.

(* the first token is a word *)
Definition first_word (ts : list str) : Prop := match ts with t :: _ => word_lexeme t | [] => True end.

Lemma tokens_of_text (s : list N) (toks : list str) : strip s = s -> toks_go [] s = toks -> first_word toks ->
  exists tl, (tl = [] \/ tl = [[]]) /\ tokenize (separate_delimiters s) = toks ++ tl.
Proof.
  intros Hst Ht Hf. destruct (strip_shape s) as [E|(c & m & e & Hc & _ & [[E _]|E])]; rewrite Hst in E.
  - subst s. cbn in Ht. subst toks. exists [[]]. split; [right; reflexivity|reflexivity].
  - assert (Hd : is_delim c = false).
    { destruct (is_delim c) eqn:Hd; [|reflexivity]. exfalso. rewrite E in Ht. destruct (toks_go_first c [] Hc) as (t & ts & Et & Hdt).
      assert (Ht2 : t :: ts = toks) by (rewrite <- Et; exact Ht). rewrite <- Ht2 in Hf. cbn [first_word] in Hf. rewrite (Hdt Hd) in Hf. destruct Hf as [_ Hf].
      inversion Hf as [|x xs [_ Hx] _]; subst. rewrite Hd in Hx. discriminate Hx. }
    rewrite E. rewrite E in Ht. rewrite <- Ht. exact (tokens_gen c [] Hc Hd).
  - assert (Hd : is_delim c = false).
    { destruct (is_delim c) eqn:Hd; [|reflexivity]. exfalso. rewrite E in Ht. destruct (toks_go_first c (m ++ [e]) Hc) as (t & ts & Et & Hdt).
      assert (Ht2 : t :: ts = toks) by (rewrite <- Et; exact Ht). rewrite <- Ht2 in Hf. cbn [first_word] in Hf. rewrite (Hdt Hd) in Hf. destruct Hf as [_ Hf].
      inversion Hf as [|x xs [_ Hx] _]; subst. rewrite Hd in Hx. discriminate Hx. }
    rewrite E. rewrite E in Ht. rewrite <- Ht. exact (tokens_gen c (m ++ [e]) Hc Hd).
Qed.

(* ================================================================================================ *)
(* 10. the lexer on the written text                                                                *)
(* ================================================================================================ *)

Lemma strip_idem (s : list N) : strip (strip s) = strip s.
Proof.
  destruct (strip_shape s) as [E|(c & m & e & Hc & He & [[E _]|E])]; rewrite E.
  - reflexivity.
  - unfold strip. cbn [lstrip]. rewrite Hc. change [c] with ([] ++ [c]). apply rstrip_nonspace_last. exact Hc.
  - unfold strip. cbn [lstrip]. rewrite Hc. change (c :: m ++ [e]) with ((c :: m) ++ [e]). apply rstrip_nonspace_last. exact He.
Qed.

Fixpoint first_nc (es : list ev) : Prop :=
  match es with
  | [] => True
  | ECm _ _ _ :: es' => first_nc es'
  | EClose _ :: _ | EIOpen _ _ _ _ _ :: _ | EDOpen _ _ _ _ _ :: _ | ELEnd _ _ _ _ _ _ :: _ => False
  | _ => True
  end.

Lemma first_word_evs es : Forall ev_fin es -> first_nc es -> forall ks, first_word (evs_tokL ks es).
Proof.
  induction 1 as [|e es He _ IH]; intros Hf ks; [exact I|].
  destruct e as [lvl k v|lvl k|lvl|lvl n x|lvl k|lvl len idx first run|lvl len idx first run|lvl anc len idx first run]; cbn [first_nc ev_fin ev_ok evs_tokL ev_tokL] in *.
  - apply simple_tok_word. exact (proj1 (simple_key_inv k (proj1 He))).
  - apply simple_tok_word. exact (proj1 (simple_key_inv k He)).
  - contradiction.
  - destruct He as [_ [-> |Hw]]; [exact (IH Hf _)|]. destruct x; [destruct Hw; congruence|exact Hw].
  - apply simple_tok_word. exact (proj1 (simple_key_inv k He)).
  - contradiction.
  - contradiction.
  - contradiction.
Qed.

Lemma relab_first cm : forall es ks, first_nc es -> first_nc (relab cm ks es).
Proof.
  induction es as [|e es IH]; intros ks H; [exact I|]. destruct e as [lvl k v|lvl k|lvl|lvl n x|lvl k|lvl len idx first run|lvl len idx first run|lvl anc len idx first run]; cbn [relab first_nc] in *; try exact I; try contradiction.
  destruct (str_eqb n w_LINECOMMENT); [destruct ks|]; cbn [first_nc]; apply IH; exact H.
Qed.

Lemma numB_first cm tab : forall es, first_nc es -> first_nc (map (numB cm tab) es).
Proof.
  induction es as [|e es IH]; intros H; [exact I|]. destruct e as [lvl k v|lvl k|lvl|lvl n x|lvl k|lvl len idx first run|lvl len idx first run|lvl anc len idx first run]; cbn [map numB first_nc] in *; try exact I; try contradiction.
  destruct (str_eqb n w_BLOCKCOMMENT && inb x tab); cbn [first_nc]; apply IH; exact H.
Qed.

Lemma relab_bcx cm : forall es ks, bcx (relab cm ks es) = bcx es.
Proof.
  induction es as [|e es IH]; intros ks; [reflexivity|]. destruct e as [lvl k v|lvl k|lvl|lvl n x|lvl k|lvl len idx first run|lvl len idx first run|lvl anc len idx first run]; cbn [relab bcx]; try apply IH.
  destruct (str_eqb n w_LINECOMMENT) eqn:En.
  - apply SDictProofs.str_eqb_eq in En. subst n. destruct ks as [|k ks]; cbn [bcx]; replace (str_eqb w_LINECOMMENT w_BLOCKCOMMENT) with false by reflexivity; apply IH.
  - cbn [bcx]. rewrite IH. reflexivity.
Qed.

Lemma relab_lits cm : forall es ks, lits (relab cm ks es) = lits es.
Proof.
  induction es as [|e es IH]; intros ks; [reflexivity|]. unfold lits in *. destruct e as [lvl k v|lvl k|lvl|lvl n x|lvl k|lvl len idx first run|lvl len idx first run|lvl anc len idx first run]; cbn [relab flat_map ev_lits]; try (rewrite IH; reflexivity).
  destruct (str_eqb n w_LINECOMMENT); [destruct ks|]; cbn [flat_map ev_lits]; apply IH.
Qed.

Lemma numB_lits cm tab es : lits (map (numB cm tab) es) = lits es.
Proof.
  induction es as [|e es IH]; [reflexivity|]. unfold lits in *. cbn [map flat_map]. rewrite IH. f_equal.
  destruct e as [lvl k v|lvl k|lvl|lvl n x|lvl k|lvl len idx first run|lvl len idx first run|lvl anc len idx first run]; try reflexivity. cbn [numB]. destruct (str_eqb n w_BLOCKCOMMENT && inb x tab); reflexivity.
Qed.

Lemma btok_fin cm i : forallb tchar (btok cm i) = true /\ (btok cm i = [] \/ word_lexeme (btok cm i)).
Proof. split; [apply btok_tchars|]. unfold btok. destruct cm; [right; apply cph_word; right; reflexivity|left; reflexivity]. Qed.

Lemma final_events cm tab : forall es ks, Forall ev_src es -> (forall x, In x (bcx es) -> inb x tab = true) ->
  length ks = length (lcx es) -> Forall ev_fin (map (numB cm tab) (relab cm ks es)).
Proof.
  induction es as [|e es IH]; intros ks H Hin Hl; [constructor|]. inversion H as [|e' es' He Hes]; subst.
  destruct e as [lvl k v|lvl k|lvl|lvl n x|lvl k|lvl len idx first run|lvl len idx first run|lvl anc len idx first run]; cbn [relab lcx bcx map numB] in *; try (constructor; [exact He|exact (IH ks Hes Hin Hl)]).
  cbn [ev_src] in He. destruct He as [[-> Hx]|[-> Hx]].
  - replace (str_eqb w_LINECOMMENT w_LINECOMMENT) with true in * by reflexivity.
    replace (str_eqb w_LINECOMMENT w_BLOCKCOMMENT) with false in Hin by reflexivity.
    destruct ks as [|k ks]; [discriminate Hl|]. cbn [length] in Hl. cbn [map numB].
    replace (str_eqb w_LINECOMMENT w_BLOCKCOMMENT) with false by reflexivity. cbn [andb].
    constructor; [|apply IH; [exact Hes|exact Hin|lia]]. cbn [ev_fin].
    destruct cm; [split; [apply cph_tchars; left; reflexivity|right; apply cph_word; left; reflexivity]|split; [reflexivity|left; reflexivity]].
  - replace (str_eqb w_BLOCKCOMMENT w_LINECOMMENT) with false in * by reflexivity.
    replace (str_eqb w_BLOCKCOMMENT w_BLOCKCOMMENT) with true in * by reflexivity. cbn [map numB].
    replace (str_eqb w_BLOCKCOMMENT w_BLOCKCOMMENT) with true by reflexivity. rewrite (Hin x (or_introl eq_refl)). cbn [andb].
    constructor; [|apply IH; [exact Hes|intros y Hy; apply Hin; right; exact Hy|exact Hl]]. exact (btok_fin cm _).
Qed.

Lemma inb_number_from (l : list str) x : forall i, In x l -> inb x (number_from i l) = true.
Proof.
  induction l as [|y l IH]; intros i H; [destruct H|]. cbn [number_from inb existsb snd]. destruct H as [-> |H].
  - rewrite ScalarProofs.str_eqb_refl. reflexivity.
  - fold (inb x (number_from (i + 1) l)). rewrite (IH (i + 1) H). apply orb_true_r.
Qed.

Theorem lex_events cm dir count es : Forall ev_src es -> first_nc es -> NoDup (bcx es) ->
  NoDup (ids count (length (lcx es))) ->
  let nl := length (lcx es) in let c1 := cafter count nl in let nq := length (lits es) in
  let btab := number_from 0 (bcx es) in
  let E2 := map (numB cm btab) (relab cm (ids count nl) es) in
  exists tl, (tl = [] \/ tl = [[]]) /\
  lex cm dir count (catR es) =
  mkLexed (evs_tokL (ids c1 nq) E2 ++ tl) (cafter c1 nq) (combine (ids count nl) (lcx es)) btab [] []
          (tupdate [] (combine (ids c1 nq) (lits es))).
Proof.
  intros Hes Hfn Hbnd Hlnd nl c1 nq btab E2.
  set (E1 := relab cm (ids count nl) es).
  assert (Hmid : Forall ev_mid E1) by (apply relab_mid; [exact Hes|apply ids_length]).
  assert (Hfin : Forall ev_fin E2).
  { apply final_events; [exact Hes|intros x Hx; apply inb_number_from; exact Hx|apply ids_length]. }
  assert (HokT : Forall ev_okT E2) by (revert Hfin; apply Forall_impl; exact ev_fin_okT).
  assert (Hlits : lits E2 = lits es) by (unfold E2; rewrite numB_lits, relab_lits; reflexivity).
  assert (Hq : Forall qlit (lits es)) by (rewrite <- Hlits; exact (lits_qlit E2 HokT)).
  set (F := map format_string (lits es)). set (B := catRabs E2).
  assert (Hsol : Forall solid F) by exact (qlits_solid _ Hq).
  assert (EB : catR E2 = expandL F B).
  { pose proof (catR_expand E2 HokT [] ltac:(constructor)) as H. cbn [expandL] in H. rewrite !app_nil_r, Hlits in H. symmetry. exact H. }
  destruct (catRabs_aok E2 HokT) as [HaB HnB]. rewrite Hlits in HnB. fold B in HaB, HnB. fold nq in HnB.
  pose proof (achar_rle B HaB) as HaB2. assert (HnB2 : nh (remove_line_endings B) = nq) by (rewrite nh_rle; exact HnB).
  assert (Hw : Forall wlit (lits es)) by (revert Hq; apply Forall_impl; exact qlit_wlit).
  set (P := map PH (ids c1 nq)). set (b3 := expandL P (remove_line_endings B)).
  assert (Ht3 : forallb tchar b3 = true).
  { unfold b3, P. apply expandL_tchars; [exact HaB2| |rewrite map_length, ids_length, HnB2; lia].
    apply Forall_map_iff. apply Forall_forall. intros k _. apply PH_tchars. }
  assert (Htoks : toks_go [] b3 = evs_tokL (ids c1 nq) E2).
  { unfold b3, P, B. apply toks_surgery; [exact Hfin|rewrite Hlits, ids_length; apply Nat.le_refl|apply ids_small]. }
  assert (Hstrip : strip b3 = b3).
  { unfold b3, P. rewrite <- (rle_expand B _ (PHs_solid _)), remove_line_endings_eq. apply strip_idem. }
  assert (Hfw : first_word (evs_tokL (ids c1 nq) E2)).
  { apply first_word_evs; [exact Hfin|]. unfold E2. apply numB_first, relab_first. exact Hfn. }
  destruct (tokens_of_text b3 _ Hstrip Htoks Hfw) as (tl & Htl & Etok). exists tl. split; [exact Htl|].
  unfold lex. cbv zeta. rewrite elc_elcL, (elc_events cm es count Hes). fold nl c1 E1.
  rewrite ins_fresh by (rewrite combine_fst by (apply ids_length); exact Hlnd).
  rewrite (extract_includes_none' dir _ (no_includes E1 Hmid) c1).
  pose proof (catR_nocr E1 (Forall_impl _ ev_mid_lex Hmid)) as Hcr.
  assert (Hcat : concat (splitlines (catR E1)) = catR E1) by (exact (concat_splitlines _ Hcr [])).
  assert (Hb1 : bcx E1 = bcx es) by (unfold E1; apply relab_bcx).
  rewrite Hcat. rewrite (extract_blocks_events cm E1 Hmid) by (rewrite Hb1; exact Hbnd).
  rewrite Hb1. fold btab. change (map (numB cm btab) E1) with E2.
  rewrite EB, (rle_expand B F Hsol). unfold extract_string_literals, F.
  rewrite (scan_expand (remove_line_endings B) (lits es) _ c1 [] [] Hw HaB2 HnB2 (Nat.le_succ_diag_r _)).
  cbn [rev app]. fold nq P b3.
  rewrite (extract_expressions_none _ _ (tchars_no c_dq _ Ht3 eq_refl) (tchars_no c_dollar _ Ht3 eq_refl)).
  rewrite Etok. reflexivity.
Qed.
