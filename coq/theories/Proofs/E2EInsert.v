(* C01 layer (c), full writer domain, part 2: _insert_string_literals.
   insert_literal replaces, one after the other, every leaf whose text contains the placeholder by the literal's value;
   on a well-formed tree whose matching leaves sit at most ten keys deep this is a map over the leaves. *)
From Coq Require Import String.
From Coq Require Import NArith ZArith List Bool Lia ZifyBool ZifyN ZifyNat Permutation.
From DictIO Require Import Chars Str Value Scalar KeyPath SDict Layout Lexer TokParser TreeSpec NativeSpec LayoutSpec E2ESpec.
From DictIO Require ScalarProofs SDictProofs TokProofs LayoutProofs SemProofs QuoteProofs OrderProofs KeyPathProofs.
From DictIO Require Import E2EProofs E2EHoles.
Import ListNotations.
Open Scope N_scope.

Lemma map_leaves_compose f g : forall t, map_leaves f (map_leaves g t) = map_leaves (fun x => f (g x)) t.
Proof.
  induction t as [v|kvs IH|ts IH] using tree_ind'.
  - reflexivity.
  - rewrite !TokProofs.map_leaves_dict. f_equal. rewrite map_map.
    induction IH as [|[k c] kvs Hc _ IHk]; [reflexivity|]. cbn [map]. rewrite IHk. f_equal.
    unfold TokProofs.mkv. cbn [fst snd] in *. rewrite Hc. reflexivity.
  - rewrite !TokProofs.map_leaves_lst. f_equal. rewrite map_map.
    induction IH as [|c l Hc _ IHl]; [reflexivity|]. cbn [map]. rewrite IHl, Hc. reflexivity.
Qed.

Lemma map_leaves_ext f g : forall t, (forall x, f x = g x) -> map_leaves f t = map_leaves g t.
Proof.
  intros t H. induction t as [v|kvs IH|ts IH] using tree_ind'.
  - cbn [map_leaves]. rewrite H. reflexivity.
  - rewrite !TokProofs.map_leaves_dict. f_equal.
    induction IH as [|[k c] kvs Hc _ IHk]; [reflexivity|]. cbn [map]. rewrite IHk. f_equal.
    unfold TokProofs.mkv. cbn [fst snd] in *. rewrite Hc. reflexivity.
  - rewrite !TokProofs.map_leaves_lst. f_equal.
    induction IH as [|c l Hc _ IHl]; [reflexivity|]. cbn [map]. rewrite IHl, Hc. reflexivity.
Qed.

Lemma map_leaves_id : forall t, map_leaves (fun x => x) t = t.
Proof.
  induction t as [v|kvs IH|ts IH] using tree_ind'; [reflexivity| |].
  - rewrite TokProofs.map_leaves_dict. f_equal. induction IH as [|[k c] kvs Hc _ IHk]; [reflexivity|].
    cbn [map]. unfold TokProofs.mkv at 1. cbn [fst snd] in *. rewrite Hc, IHk. reflexivity.
  - rewrite TokProofs.map_leaves_lst. f_equal. induction IH as [|c l Hc _ IHl]; [reflexivity|].
    cbn [map]. rewrite Hc, IHl. reflexivity.
Qed.

(* leaves with property PW sit at most b - 1 keys deep *)
Section Within.
  Variable PW : scalar -> bool.
  Fixpoint lw (b : nat) (t : tree) : bool :=
    match t with
    | Leaf x => negb (PW x) || Nat.leb 1 b
    | Dict kvs => (fix go (l : list (key * tree)) : bool :=
                     match l with [] => true | (_, c) :: l' => lw (Nat.pred b) c && go l' end) kvs
    | Lst ts => (fix go (l : list tree) : bool :=
                   match l with [] => true | c :: l' => lw (Nat.pred b) c && go l' end) ts
    end.
  Lemma lw_dict b kvs : lw b (Dict kvs) = forallb (fun kc => lw (Nat.pred b) (snd kc)) kvs.
  Proof. cbn [lw]. induction kvs as [|[k c] kvs IH]; [reflexivity|]. cbn [forallb snd]. rewrite IH. reflexivity. Qed.
  Lemma lw_lst b ts : lw b (Lst ts) = forallb (lw (Nat.pred b)) ts.
  Proof. cbn [lw]. induction ts as [|c ts IH]; [reflexivity|]. cbn [forallb]. rewrite IH. reflexivity. Qed.
End Within.

Lemma lw_map_leaves PW f : (forall x, PW (f x) = true -> PW x = true) ->
  forall t b, lw PW b t = true -> lw PW b (map_leaves f t) = true.
Proof.
  intros Hf. induction t as [v|kvs IH|ts IH] using tree_ind'; intros b H.
  - cbn [map_leaves lw] in *. apply orb_true_iff in H. apply orb_true_iff. destruct H as [H|H]; [left|right; exact H].
    apply negb_true_iff in H. apply negb_true_iff. destruct (PW (f v)) eqn:E; [|reflexivity].
    rewrite (Hf v E) in H. discriminate H.
  - rewrite TokProofs.map_leaves_dict, lw_dict in *. rewrite forallb_forall in H. apply forallb_forall.
    intros kc Hin. apply in_map_iff in Hin. destruct Hin as (kc0 & <- & Hin0).
    rewrite Forall_forall in IH. cbn [TokProofs.mkv snd]. apply (IH kc0 Hin0). exact (H kc0 Hin0).
  - rewrite TokProofs.map_leaves_lst, lw_lst in *. rewrite forallb_forall in H. apply forallb_forall.
    intros c Hin. apply in_map_iff in Hin. destruct Hin as (c0 & <- & Hin0).
    rewrite Forall_forall in IH. apply (IH c0 Hin0). exact (H c0 Hin0).
Qed.

Section Ins.
  Variable q : str.          (* the placeholder searched for *)
  Variable v' : scalar.      (* the value inserted *)
  Variable PW : scalar -> bool.
  Definition Pq (x : scalar) : bool := contains q (py_str x).
  Hypothesis HPq : forall x, Pq x = true -> PW x = true.
  Hypothesis HPv : PW v' = false.
  Definition Fsub (x : scalar) : scalar := if Pq x then v' else x.

  Lemma Pq_v : Pq v' = false.
  Proof. destruct (Pq v') eqn:E; [|reflexivity]. rewrite (HPq v' E) in HPv. discriminate HPv. Qed.

  Fixpoint cntq (t : tree) : nat :=
    match t with
    | Leaf x => if Pq x then 1%nat else 0%nat
    | Dict kvs => fold_right (fun kv n => (cntq (snd kv) + n)%nat) 0%nat kvs
    | Lst ts => fold_right (fun c n => (cntq c + n)%nat) 0%nat ts
    end.

  Lemma cntq_le : forall t, (cntq t <= count_leaves t)%nat.
  Proof.
    clear HPq HPv. induction t as [v|kvs IH|ts IH] using tree_ind'.
    - cbn [cntq count_leaves]. destruct (Pq v); lia.
    - cbn [cntq count_leaves]. induction IH as [|kc kvs Hc _ IHk]; [cbn; lia|]. cbn [fold_right]. lia.
    - cbn [cntq count_leaves]. induction IH as [|c l Hc _ IHl]; [cbn; lia|]. cbn [fold_right]. lia.
  Qed.

  (* one matching leaf replaced *)
  Inductive R1 : tree -> tree -> Prop :=
    | R1_leaf x : Pq x = true -> R1 (Leaf x) (Leaf v')
    | R1_dict l1 k c c' l2 : R1 c c' -> R1 (Dict (l1 ++ (k, c) :: l2)) (Dict (l1 ++ (k, c') :: l2))
    | R1_lst l1 c c' l2 : R1 c c' -> R1 (Lst (l1 ++ c :: l2)) (Lst (l1 ++ c' :: l2)).

  Lemma cntq_dict_app l1 l2 :
    cntq (Dict (l1 ++ l2)) = (cntq (Dict l1) + cntq (Dict l2))%nat.
  Proof. cbn [cntq]. induction l1 as [|kc l1 IH]; [reflexivity|]. cbn [app fold_right]. rewrite IH. lia. Qed.
  Lemma cntq_lst_app l1 l2 :
    cntq (Lst (l1 ++ l2)) = (cntq (Lst l1) + cntq (Lst l2))%nat.
  Proof. cbn [cntq]. induction l1 as [|c l1 IH]; [reflexivity|]. cbn [app fold_right]. rewrite IH. lia. Qed.

  Lemma R1_facts t t' : R1 t t' ->
    map_leaves Fsub t' = map_leaves Fsub t /\ cntq t = S (cntq t') /\ (wf t = true -> wf t' = true) /\
    (is_container t = true -> is_container t' = true) /\ (forall b, lw PW b t = true -> lw PW b t' = true).
  Proof.
    induction 1 as [x Hx|l1 k c c' l2 _ (I1 & I2 & I3 & I4 & I5)|l1 c c' l2 _ (I1 & I2 & I3 & I4 & I5)].
    - cbn [map_leaves cntq wf is_container lw]. unfold Fsub. rewrite Pq_v, Hx, HPv. repeat split; try (intros; reflexivity).
      intros H; discriminate H.
    - split; [|split; [|split; [|split]]].
      + rewrite !TokProofs.map_leaves_dict, !map_app. cbn [map]. unfold TokProofs.mkv at 2 5. cbn [fst snd].
        rewrite I1. reflexivity.
      + rewrite !cntq_dict_app. change ((k, c) :: l2) with ([(k, c)] ++ l2). change ((k, c') :: l2) with ([(k, c')] ++ l2).
        rewrite !cntq_dict_app. cbn [cntq fold_right snd] in *. lia.
      + rewrite !KeyPathProofs.wf_dict, !map_app, !forallb_app. cbn [map fst forallb snd].
        intros H. apply andb_true_iff in H. destruct H as [H1 H2]. rewrite H1. cbn [andb].
        apply andb_true_iff in H2. destruct H2 as [H2 H3]. rewrite H2. cbn [andb].
        apply andb_true_iff in H3. destruct H3 as [H3 H4]. rewrite (I3 H3), H4. reflexivity.
      + intros _. reflexivity.
      + intros b. rewrite !lw_dict, !forallb_app. cbn [forallb snd]. intros H.
        apply andb_true_iff in H. destruct H as [H1 H2]. rewrite H1. cbn [andb].
        apply andb_true_iff in H2. destruct H2 as [H2 H3]. rewrite (I5 _ H2), H3. reflexivity.
    - split; [|split; [|split; [|split]]].
      + rewrite !TokProofs.map_leaves_lst, !map_app. cbn [map]. rewrite I1. reflexivity.
      + rewrite !cntq_lst_app. change (c :: l2) with ([c] ++ l2). change (c' :: l2) with ([c'] ++ l2).
        rewrite !cntq_lst_app. cbn [cntq fold_right] in *. lia.
      + rewrite !KeyPathProofs.wf_lst, !forallb_app. cbn [forallb].
        intros H. apply andb_true_iff in H. destruct H as [H1 H2]. rewrite H1. cbn [andb].
        apply andb_true_iff in H2. destruct H2 as [H2 H3]. rewrite (I3 H2), H3. reflexivity.
      + intros _. reflexivity.
      + intros b. rewrite !lw_lst, !forallb_app. cbn [forallb]. intros H.
        apply andb_true_iff in H. destruct H as [H1 H2]. rewrite H1. cbn [andb].
        apply andb_true_iff in H2. destruct H2 as [H2 H3]. rewrite (I5 _ H2), H3. reflexivity.
  Qed.

  (* nothing found: nothing to replace *)
  Lemma find_none_id : forall t, find_key q t = None -> map_leaves Fsub t = t.
  Proof.
    induction t as [v|kvs IH|ts IH] using tree_ind'; intros H.
    - cbn [find_key] in H. cbn [map_leaves]. unfold Fsub, Pq. destruct (contains q (py_str v)); [discriminate H|reflexivity].
    - rewrite TokProofs.map_leaves_dict. f_equal.
      rewrite KeyPathProofs.find_key_dict in H.
      destruct (first_some (sort_kvs (OrderProofs.map_snd (find_key q) kvs))) as [[k0 p0]|] eqn:Ef; [discriminate H|].
      assert (Hall : forall kc, In kc kvs -> find_key q (snd kc) = None).
      { intros [k c] Hin. cbn [snd].
        apply (KeyPathProofs.first_some_none _ k _ Ef).
        apply (Permutation_in _ (Permutation_sym (OrderProofs.sort_kvs_perm _))).
        unfold OrderProofs.map_snd. apply in_map_iff. exists (k, c). split; [reflexivity|exact Hin]. }
      clear H Ef. induction IH as [|[k c] kvs Hc _ IHk]; [reflexivity|].
      cbn [map]. unfold TokProofs.mkv at 1. cbn [fst snd] in *.
      rewrite (Hc (Hall (k, c) (or_introl eq_refl))). f_equal. apply IHk. intros kc Hin. apply Hall. right. exact Hin.
    - rewrite TokProofs.map_leaves_lst. f_equal. rewrite KeyPathProofs.find_key_lst in H.
      assert (Hall : forall c, In c ts -> find_key q c = None).
      { intros c Hin. exact (KeyPathProofs.find_lst_none _ _ _ _ H Hin). }
      clear H. induction IH as [|c l Hc _ IHl]; [reflexivity|].
      cbn [map]. rewrite (Hc (Hall c (or_introl eq_refl))). f_equal. apply IHl. intros c' Hin. apply Hall. right. exact Hin.
  Qed.

  Lemma aset_mid {V} k (x y : V) l1 l2 : ~ In k (map fst l1) -> aset k y (l1 ++ (k, x) :: l2) = l1 ++ (k, y) :: l2.
  Proof.
    induction l1 as [|[k1 x1] l1 IH]; intros Hn.
    - cbn [app aset]. rewrite SDictProofs.key_eqb_refl. reflexivity.
    - cbn [app aset]. destruct (key_eqb k k1) eqn:E.
      + apply SDictProofs.key_eqb_eq in E. subst k1. exfalso. apply Hn. left. reflexivity.
      + f_equal. apply IH. intros Hin. apply Hn. right. exact Hin.
  Qed.

  Lemma set_nth_mid {A} (x y : A) l1 l2 : set_nth (length l1) y (l1 ++ x :: l2) = l1 ++ y :: l2.
  Proof. induction l1 as [|z l1 IH]; [reflexivity|]. cbn [length app set_nth]. rewrite IH. reflexivity. Qed.

  Lemma set_at_cons2 t k k2 p (v : tree) ii :
    set_at t (k :: k2 :: p) v ii =
    bind (child t k) (fun c =>
      if negb (is_container c) then Raise E_Key
      else if Nat.eqb (S ii) 10 then Raise E_Recursion
      else bind (set_at c (k2 :: p) v (S ii)) (fun c' => set_child t k c')).
  Proof. reflexivity. Qed.

  (* something found: the path leads to a matching leaf, is short, and setting it replaces that leaf *)
  Lemma find_some_set : forall t p, wf t = true -> find_key q t = Some p ->
    (forall b, lw PW b t = true -> (length p < b)%nat) /\
    ((exists x, t = Leaf x /\ p = [] /\ Pq x = true) \/
     (p <> [] /\ is_container t = true /\
      forall ii, (ii + length p <= 10)%nat -> exists t', set_at t p (Leaf v') ii = Ok t' /\ R1 t t')).
  Proof.
    induction t as [v|kvs IH|ts IH] using tree_ind'; intros p Hwf H.
    - cbn [find_key] in H. destruct (contains q (py_str v)) eqn:E; [|discriminate H].
      inversion H; subst p. split.
      + intros b Hb. cbn [lw] in Hb. cbn [length]. apply orb_true_iff in Hb. destruct Hb as [Hb|Hb].
        * apply negb_true_iff in Hb. rewrite (HPq v E) in Hb. discriminate Hb.
        * apply Nat.leb_le in Hb. lia.
      + left. exists v. repeat split. exact E.
    - rewrite KeyPathProofs.find_key_dict in H.
      destruct (first_some (sort_kvs (OrderProofs.map_snd (find_key q) kvs))) as [[k p0]|] eqn:Ef; [|discriminate H].
      inversion H; subst p. clear H.
      apply KeyPathProofs.first_some_in in Ef.
      apply (Permutation_in _ (OrderProofs.sort_kvs_perm _)) in Ef.
      unfold OrderProofs.map_snd in Ef. apply in_map_iff in Ef. destruct Ef as [[k1 c] [Heq Hin]].
      cbn [fst snd] in Heq. inversion Heq; subst k1. clear Heq. rename H1 into Hfc.
      rewrite Forall_forall in IH.
      pose proof (IH (k, c) Hin) as IHc. cbn [snd] in IHc.
      destruct (IHc p0 (KeyPathProofs.wf_dict_child _ _ _ Hwf Hin) Hfc) as [Hlen Hcase].
      pose proof (KeyPathProofs.wf_dict_nodup _ Hwf) as Hnd.
      pose proof (KeyPathProofs.in_alookup_nodup k kvs c Hnd Hin) as Hlk.
      destruct (in_split _ _ Hin) as (l1 & l2 & Ekvs).
      assert (Hk1 : ~ In k (map fst l1)).
      { rewrite Ekvs, map_app in Hnd. cbn [map fst] in Hnd. apply NoDup_remove_2 in Hnd.
        intros Hk. apply Hnd. apply in_or_app. left. exact Hk. }
      split.
      + intros b Hb. rewrite lw_dict in Hb. rewrite forallb_forall in Hb. pose proof (Hb (k, c) Hin) as Hbc. cbn [snd] in Hbc.
        pose proof (Hlen _ Hbc). cbn [length]. lia.
      + right. split; [discriminate|]. split; [reflexivity|]. intros ii Hii. cbn [length] in Hii.
        destruct Hcase as [(x & -> & -> & Hx)|(Hne & Hcont & Hset)].
        * exists (Dict (l1 ++ (k, Leaf v') :: l2)). split.
          -- cbn [set_at set_child]. rewrite Ekvs, (aset_mid k (Leaf x) (Leaf v') l1 l2 Hk1). reflexivity.
          -- rewrite Ekvs. apply R1_dict. apply R1_leaf. exact Hx.
        * destruct p0 as [|k2 p0']; [congruence|].
          destruct (Hset (S ii) ltac:(cbn [length] in *; lia)) as (c' & Ec' & Rc).
          exists (Dict (l1 ++ (k, c') :: l2)). split.
          -- rewrite set_at_cons2. cbn [child]. rewrite Hlk. cbn [bind]. rewrite Hcont. cbn [negb].
             destruct (Nat.eqb (S ii) 10) eqn:E10; [apply Nat.eqb_eq in E10; cbn [length] in Hii; lia|].
             rewrite Ec'. cbn [bind set_child]. rewrite Ekvs, (aset_mid k c c' l1 l2 Hk1). reflexivity.
          -- rewrite Ekvs. apply R1_dict. exact Rc.
    - rewrite KeyPathProofs.find_key_lst in H. apply KeyPathProofs.find_lst_some in H.
      destruct H as (j & c & p0 & -> & Hnth & Hfc).
      rewrite KeyPathProofs.wf_lst in Hwf. rewrite forallb_forall in Hwf.
      pose proof (nth_error_In _ _ Hnth) as Hin.
      rewrite Forall_forall in IH.
      destruct (IH c Hin p0 (Hwf c Hin) Hfc) as [Hlen Hcase].
      destruct (nth_error_split _ _ Hnth) as (l1 & l2 & Ets & Hj).
      assert (Hlt : (j < length ts)%nat) by (apply nth_error_Some; rewrite Hnth; discriminate).
      assert (Hni : norm_index (0 + Z.of_nat j) (length ts) = Some j).
      { rewrite KeyPathProofs.norm_index_nonneg by lia.
        destruct (0 + Z.of_nat j <? Z.of_nat (length ts))%Z eqn:E; [|lia]. f_equal. lia. }
      split.
      + intros b Hb. rewrite lw_lst in Hb. rewrite forallb_forall in Hb. pose proof (Hlen _ (Hb c Hin)). cbn [length]. lia.
      + right. split; [discriminate|]. split; [reflexivity|]. intros ii Hii. cbn [length] in Hii.
        destruct Hcase as [(x & -> & -> & Hx)|(Hne & Hcont & Hset)].
        * exists (Lst (l1 ++ Leaf v' :: l2)). split.
          -- cbn [set_at set_child]. rewrite Hni. rewrite Ets, <- Hj, set_nth_mid. reflexivity.
          -- rewrite Ets. apply R1_lst. apply R1_leaf. exact Hx.
        * destruct p0 as [|k2 p0']; [congruence|].
          destruct (Hset (S ii) ltac:(cbn [length] in *; lia)) as (c' & Ec' & Rc).
          exists (Lst (l1 ++ c' :: l2)). split.
          -- rewrite set_at_cons2. cbn [child]. rewrite Hni, Hnth. cbn [bind]. rewrite Hcont. cbn [negb].
             destruct (Nat.eqb (S ii) 10) eqn:E10; [apply Nat.eqb_eq in E10; cbn [length] in Hii; lia|].
             rewrite Ec'. cbn [bind set_child]. rewrite Hni. rewrite Ets, <- Hj, set_nth_mid. reflexivity.
          -- rewrite Ets. apply R1_lst. exact Rc.
  Qed.

  Lemma insert_literal_spec : forall fuel t,
    (cntq t < fuel)%nat -> is_container t = true -> wf t = true -> lw PW 11 t = true ->
    insert_literal fuel q (Leaf v') t = Ok (map_leaves Fsub t).
  Proof.
    induction fuel as [|f IH]; intros t Hc Hcont Hwf Hlw; [lia|].
    cbn [insert_literal].
    destruct (find_key q t) as [p|] eqn:Ef.
    - destruct (find_some_set t p Hwf Ef) as [Hlen [(x & -> & _)|(Hne & _ & Hset)]]; [discriminate Hcont|].
      assert (Eg : find_global_key q t = Some p).
      { unfold find_global_key. destruct t as [x|kvs|ts]; [discriminate Hcont| |]; rewrite Ef;
          destruct p; [congruence|reflexivity|congruence|reflexivity]. }
      rewrite Eg. pose proof (Hlen 11%nat Hlw) as Hl.
      destruct (Hset 0%nat ltac:(lia)) as (t' & Et' & Rt). unfold set_global_key. rewrite Et'. cbn [bind].
      destruct (R1_facts t t' Rt) as (I1 & I2 & I3 & I4 & I5).
      rewrite (IH t'); [rewrite I1; reflexivity|lia|exact (I4 Hcont)|exact (I3 Hwf)|exact (I5 _ Hlw)].
    - assert (Eg : find_global_key q t = None).
      { unfold find_global_key. destruct t as [x|kvs|ts]; [reflexivity| |]; rewrite Ef; reflexivity. }
      rewrite Eg. rewrite (find_none_id t Ef). reflexivity.
  Qed.
End Ins.

(* ---- the whole table ---------------------------------------------------------------------------- *)
Definition PWs (x : scalar) : bool := contains w_STRINGLITERAL (py_str x).
Definition pv (s : str) : scalar := match parse_value s with Ok v => v | Raise _ => SStr s end.

Lemma parse_pv s : parse_value s = Ok (pv s).
Proof.
  unfold pv. destruct (parse_value s) as [x|e] eqn:E; [reflexivity|].
  exfalso. exact (ScalarProofs.parse_value_total _ _ E).
Qed.

Lemma starts_with_app_l (a b s : list N) : starts_with (a ++ b) s = true -> starts_with a s = true.
Proof.
  revert s. induction a as [|x a IH]; intros s H; [reflexivity|].
  destruct s as [|y s]; [discriminate H|]. cbn [app starts_with] in *. apply andb_true_iff in H.
  rewrite (proj1 H). exact (IH s (proj2 H)).
Qed.

Lemma contains_prefix (a b s : list N) : contains (a ++ b) s = true -> contains a s = true.
Proof.
  induction s as [|x s IH]; intros H.
  - cbn [contains] in *. destruct a as [|y a]; [reflexivity|discriminate H].
  - cbn [contains] in *. apply orb_true_iff in H. destruct H as [H|H].
    + rewrite (starts_with_app_l a b _ H). reflexivity.
    + rewrite (IH H). apply orb_true_r.
Qed.

Lemma Pq_PWs k x : Pq (PH k) x = true -> PWs x = true.
Proof. unfold Pq, PWs, PH, placeholder. apply contains_prefix. Qed.

Definition Gstep (x : scalar) (e : N * str) : scalar := Fsub (PH (fst e)) (pv (snd e)) x.
Definition Gfun (tab : list (N * str)) (x : scalar) : scalar := fold_left Gstep tab x.

Lemma insert_all : forall tab d,
  wf (Dict d) = true -> lw PWs 11 (Dict d) = true -> Forall (fun e => PWs (pv (snd e)) = false) tab ->
  insert_string_literals tab d = Ok (kvs_of (map_leaves (Gfun tab) (Dict d))).
Proof.
  unfold insert_string_literals.
  induction tab as [|[k s] tab IH]; intros d Hwf Hlw Htab.
  - cbn [fold_left]. rewrite (map_leaves_ext (Gfun []) (fun x => x) (Dict d) (fun x => eq_refl)), map_leaves_id. reflexivity.
  - inversion Htab as [|e tab' He Htab']; subst. cbn [snd] in He.
    cbn [fold_left bind fst snd]. rewrite (parse_pv s). cbn [bind].
    rewrite (insert_literal_spec (PH k) (pv s) PWs (Pq_PWs k) He).
    2:{ pose proof (cntq_le (PH k) SNone PWs (Dict d)). lia. }
    2:{ reflexivity. }
    2:{ exact Hwf. }
    2:{ exact Hlw. }
    cbn [bind]. rewrite TokProofs.map_leaves_dict.
    rewrite (IH (map (TokProofs.mkv (Fsub (PH k) (pv s))) d)).
    + rewrite <- TokProofs.map_leaves_dict, map_leaves_compose. reflexivity.
    + rewrite <- TokProofs.map_leaves_dict, wf_map_leaves. exact Hwf.
    + rewrite <- TokProofs.map_leaves_dict. apply lw_map_leaves; [|exact Hlw].
      intros x Hx. unfold Fsub in Hx. destruct (Pq (PH k) x); [rewrite He in Hx; discriminate Hx|exact Hx].
    + exact Htab'.
Qed.
