(* The expression evaluation of DictReader.read and the clean-up invariant.
   eval_expressions replaces leaves by resolved values; a resolved value is a sub-tree of the data, possibly a dict taken
   out of a LIST -- where the clean-up never looked.  So "clean" is kept exactly when the dicts inside lists are clean
   too: deep_data.  From a deep state the evaluation leads to a deep (hence clean) state. *)
From Coq Require Import String.
From Coq Require Import NArith ZArith List Bool Lia.
From DictIO Require Import Chars Str Value Scalar KeyPath SDict Layout Lexer TokParser Reader Expr Eval Cli Parse TreeSpec.
From DictIO Require SDictProofs KeyPathProofs SemProofs EvalProofs.
From DictIO Require Import IncludeNested CleanInvariant.
Import ListNotations.
Open Scope N_scope.

(* ================================================================================================ *)
(* 1. predicates inherited by the members of dicts and lists: everything a reference resolves to     *)
(* ================================================================================================ *)
Section Hered.
  Variable P : tree -> Prop.
  Hypothesis P_leaf : forall s, P (Leaf s).
  Hypothesis P_dict : forall kvs k c, P (Dict kvs) -> In (k, c) kvs -> P c.
  Hypothesis P_lst : forall ts c, P (Lst ts) -> In c ts -> P c.
  Definition Pv (kv : key * tree) : Prop := P (snd kv).

  Lemma insert_expression_P v exprs : P v -> P (insert_expression v exprs).
  Proof.
    intros H. destruct v as [[z|l|b| |t]|kvs|ts]; cbn [insert_expression]; try exact H.
    destruct (has_placeholder w_EXPRESSION t); [|exact H]. destruct (first_6digits t) as [i|]; [|exact H].
    destruct (tlookup i exprs) as [[e ph]|]; [apply P_leaf|exact H].
  Qed.

  Lemma vars_tree_P : forall exprs t, P t -> forall b acc, Forall Pv acc -> Forall Pv (vars_tree exprs b t acc).
  Proof.
    intros exprs. induction t as [s|kvs IH|ts IH] using tree_ind'; intros Hp b acc Ha.
    - exact Ha.
    - rewrite EvalProofs.vars_tree_dict.
      assert (Hc : forall k c, In (k, c) kvs -> P c) by (intros k c Hin; exact (P_dict kvs k c Hp Hin)). clear Hp.
      revert acc Ha. induction IH as [|[k v] l Hv Hl IHl]; intros acc Ha; [exact Ha|].
      cbn [fold_left]. apply IHl; [intros k0 c0 Hin; apply (Hc k0 c0); right; exact Hin|].
      assert (Hpv : P v) by (apply (Hc k v); left; reflexivity). cbn [snd] in Hv. unfold EvalProofs.vt_dict_step.
      assert (H1 : Forall Pv (match v with
                               | Dict _ => vars_tree exprs false v acc
                               | Lst _ => if list_contains_dict v then vars_tree exprs true v acc else acc
                               | Leaf _ => acc
                               end)).
      { destruct v as [s|kvs'|ts']; [exact Ha|apply (Hv Hpv); exact Ha|].
        destruct (list_contains_dict (Lst ts')); [apply (Hv Hpv); exact Ha|exact Ha]. }
      destruct k as [z|name]; [exact H1|].
      destruct v as [s|kvs'|ts'].
      + cbv zeta. destruct (circular (KS name) (insert_expression (Leaf s) exprs)); [exact H1|].
        apply SDictProofs.aset_Forall; [|exact H1]. unfold Pv. cbn [snd]. apply insert_expression_P. exact Hpv.
      + cbv zeta. destruct (circular (KS name) (insert_expression (Dict kvs') exprs)); [exact H1|].
        apply SDictProofs.aset_Forall; [|exact H1]. unfold Pv. cbn [snd]. apply insert_expression_P. exact Hpv.
      + apply SDictProofs.aset_Forall; [|exact H1]. exact Hpv.
    - rewrite EvalProofs.vars_tree_lst.
      assert (Hc : forall c, In c ts -> P c) by (intros c Hin; exact (P_lst ts c Hp Hin)). clear Hp.
      revert acc Ha. induction IH as [|c l Hcc Hl IHl]; intros acc Ha; [exact Ha|].
      cbn [fold_left]. apply IHl; [intros c0 Hin; apply Hc; right; exact Hin|].
      assert (Hpc : P c) by (apply Hc; left; reflexivity). unfold EvalProofs.vt_lst_step.
      destruct c as [s|kvs'|ts']; [exact Ha|apply (Hcc Hpc); exact Ha|apply (Hcc Hpc); exact Ha].
  Qed.

  Lemma index_tree_P : forall idx t t', P t -> index_tree t idx = Some t' -> P t'.
  Proof.
    induction idx as [|i idx IH]; intros t t' Hp H; cbn [index_tree] in H; [inversion H; subst; exact Hp|].
    destruct t as [s|kvs|ts]; [|discriminate|].
    - destruct s as [z|l|b| |s]; try discriminate.
      destruct (norm_index i (length s)) as [n|]; [|discriminate]. destruct (nth_error s n) as [c|]; [|discriminate].
      apply (IH _ _ (P_leaf _) H).
    - destruct (norm_index i (length ts)) as [n|]; [|discriminate]. destruct (nth_error ts n) as [c|] eqn:En; [|discriminate].
      apply (IH c t'); [|exact H]. apply (P_lst ts c Hp). eapply nth_error_In. exact En.
  Qed.

  Lemma chase_P : forall rr, (forall r2 t, rr r2 = RVal t -> P t) ->
    forall g t lr tried t', P t -> fst (SemProofs.chase_f rr g (Some t) lr tried) = RVal t' -> P t'.
  Proof.
    intros rr Hrr. induction g as [|g IH]; intros t lr tried t' Hp H; cbn [SemProofs.chase_f] in H; [cbn [fst] in H; discriminate|].
    destruct (tree_has_dollar t); [|cbn [fst] in H; inversion H; subst; exact Hp].
    cbv zeta in H. destruct (existsb (str_eqb (py_str_tree t)) tried); [cbn [fst] in H; discriminate|].
    destruct (negb (is_plain_reference (py_str_tree t))); [cbn [fst] in H; discriminate|].
    destruct (rr (py_str_tree t)) as [|t1| |] eqn:Er; try (cbn [fst] in H; discriminate).
    apply (IH t1 _ _ t' (Hrr _ _ Er) H).
  Qed.

  Lemma resolve_tail_P : forall r val lr t', (forall t, val = RVal t -> P t) ->
    SemProofs.resolve_tail r (val, lr) = RVal t' -> P t'.
  Proof.
    intros r val lr t' Hv H. unfold SemProofs.resolve_tail in H.
    destruct val as [|t0| |]; try discriminate.
    - destruct (ref_indexing r) as [|x ix]; [discriminate|].
      destruct (parse_indices (S (length (x :: ix))) (x :: ix)); discriminate.
    - destruct (ref_indexing r) as [|x ix]; [inversion H; subst; apply Hv; reflexivity|].
      destruct (parse_indices (S (length (x :: ix))) (x :: ix)) as [idx|]; [|discriminate].
      destruct (index_tree t0 idx) as [ti|] eqn:Ei; [|discriminate]. inversion H; subst.
      apply (index_tree_P idx t0 t' (Hv t0 eq_refl) Ei).
  Qed.

  Lemma resolve_ref_P : forall vars, Forall Pv vars -> forall fuel seen r t,
    resolve_ref fuel vars seen r = RVal t -> P t.
  Proof.
    intros vars Hv. induction fuel as [|f IH]; intros seen r t H; [discriminate|].
    rewrite SemProofs.resolve_ref_S in H. cbv zeta in H.
    destruct (existsb (str_eqb (ref_name r)) seen); [discriminate|].
    destruct (alookup (KS (ref_name r)) vars) as [v0|] eqn:Ea; [|discriminate].
    assert (Hp0 : P v0).
    { apply SDictProofs.alookup_Some_In in Ea. rewrite Forall_forall in Hv. apply (Hv _ Ea). }
    destruct (SemProofs.chase_f (resolve_ref f vars (seen ++ [ref_name r])) (S (vars_size vars)) (Some v0) None []) as [val lr] eqn:Ec.
    apply (resolve_tail_P r val lr t); [|exact H].
    intros t1 E. subst val.
    apply (chase_P (resolve_ref f vars (seen ++ [ref_name r])) (fun r2 t2 => IH _ r2 t2) (S (vars_size vars)) v0 None [] t1 Hp0).
    rewrite Ec. reflexivity.
  Qed.

  Lemma resolve_all_P : forall s resolved u, P (Dict (sd_data s)) -> resolve_all s = Some (resolved, u) ->
    Forall (fun p : str * tree => P (snd p)) resolved.
  Proof.
    intros s resolved u Hp H. rewrite EvalProofs.resolve_all_body in H. unfold EvalProofs.resolve_body in H.
    destruct (existsb _ _); [discriminate|]. inversion H; subst. clear H.
    apply Forall_forall. intros [r t] Hin. apply in_flat_map in Hin. destruct Hin as [[r' o] [Hin1 Hin2]].
    cbn [fst snd] in Hin2. destruct o as [t'|]; [|contradiction]. destruct Hin2 as [E|[]]. inversion E; subst r' t'.
    apply in_map_iff in Hin1. destruct Hin1 as [[r2 rr] [E1 Hin1]]. cbn [fst snd] in E1. injection E1 as Er Eu.
    apply in_map_iff in Hin1. destruct Hin1 as [r3 [E2 _]]. injection E2 as E3 E4. subst r3 r2 rr.
    cbn [snd]. apply EvalProofs.usable_val in Eu.
    assert (Hvars : Forall Pv (variables_of s)) by (unfold variables_of; apply vars_tree_P; [exact Hp|constructor]).
    apply (resolve_ref_P (variables_of s) Hvars _ [] r t Eu).
  Qed.
End Hered.

(* ================================================================================================ *)
(* 2. deep_data: every dict level, also inside lists                                                 *)
(* ================================================================================================ *)
Fixpoint deep_data (lc bc : list (N * str)) (inc : list (N * include_entry)) (t : tree) {struct t} : bool :=
  match t with
  | Dict kvs =>
      level_ok lc bc inc kvs &&
      (fix go (l : list (key * tree)) : bool :=
         match l with [] => true | (_, c) :: l' => deep_data lc bc inc c && go l' end) kvs
  | Lst ts => (fix go (l : list tree) : bool := match l with [] => true | c :: l' => deep_data lc bc inc c && go l' end) ts
  | Leaf _ => true
  end.

Section Deep.
  Variables (lc bc : list (N * str)) (inc : list (N * include_entry)).
  Notation deep := (deep_data lc bc inc).

  Lemma deep_dict kvs : deep (Dict kvs) = level_ok lc bc inc kvs && forallb (fun kv => deep (snd kv)) kvs.
  Proof. cbn [deep_data]. f_equal. induction kvs as [|[k c] l IH]; [reflexivity|]. cbn [forallb snd]. rewrite IH. reflexivity. Qed.
  Lemma deep_lst ts : deep (Lst ts) = forallb deep ts.
  Proof. cbn [deep_data]. induction ts as [|c l IH]; [reflexivity|]. cbn [forallb]. rewrite IH. reflexivity. Qed.

  Lemma deep_clean : forall t, deep t = true -> clean_data lc bc inc t = true.
  Proof.
    induction t as [s|kvs IH|ts IH] using tree_ind'; intros H; try reflexivity.
    rewrite deep_dict in H. apply andb_true_iff in H. destruct H as [H1 H2]. apply clean_data_alt. split; [exact H1|].
    rewrite forallb_forall in H2. rewrite Forall_forall in IH |- *. intros kv Hin. exact (IH kv Hin (H2 kv Hin)).
  Qed.

  (* the predicate of section 1 *)
  Definition dp (t : tree) : Prop := deep t = true.
  Lemma dp_leaf s : dp (Leaf s).
  Proof. reflexivity. Qed.
  Lemma dp_dict kvs k c : dp (Dict kvs) -> In (k, c) kvs -> dp c.
  Proof.
    unfold dp. rewrite deep_dict. intros H Hin. apply andb_true_iff in H. destruct H as [_ H].
    rewrite forallb_forall in H. exact (H _ Hin).
  Qed.
  Lemma dp_lst ts c : dp (Lst ts) -> In c ts -> dp c.
  Proof. unfold dp. rewrite deep_lst. intros H Hin. rewrite forallb_forall in H. exact (H _ Hin). Qed.

  Lemma dp_child t k c : dp t -> child t k = Ok c -> dp c.
  Proof.
    intros Hd Hc. destruct t as [s|kvs|ts]; cbn [child] in Hc; [discriminate| |].
    - destruct (alookup k kvs) as [c0|] eqn:Ea; [|discriminate]. inversion Hc; subst c0.
      exact (dp_dict kvs k c Hd (SDictProofs.alookup_Some_In _ _ _ Ea)).
    - destruct k as [z|s]; [|discriminate]. destruct (norm_index z (length ts)) as [i|]; [|discriminate].
      destruct (nth_error ts i) as [c0|] eqn:En; [|discriminate]. inversion Hc; subst c0.
      exact (dp_lst ts c Hd (nth_error_In _ _ En)).
  Qed.

  (* replacing the value of an EXISTING entry *)
  Lemma dp_set_child t k c x t' : dp t -> child t k = Ok c -> dp x -> set_child t k x = Ok t' -> dp t'.
  Proof.
    intros Hd Hc Hx Hs. destruct t as [s|kvs|ts]; cbn [set_child] in Hs; [discriminate| |].
    - inversion Hs; subst t'. cbn [child] in Hc. destruct (alookup k kvs) as [c0|] eqn:Ea; [|discriminate].
      unfold dp in *. rewrite deep_dict in Hd |- *. apply andb_true_iff in Hd. destruct Hd as [H1 H2]. apply andb_true_iff. split.
      + rewrite (level_ok_keys lc bc inc _ kvs (KeyPathProofs.aset_keys_present k x c0 kvs Ea)). exact H1.
      + rewrite forallb_forall in H2 |- *. intros kv Hin.
        assert (F : Forall (fun kv => deep (snd kv) = true) (aset k x kvs)).
        { apply SDictProofs.aset_Forall; [exact Hx|]. apply Forall_forall. exact H2. }
        rewrite Forall_forall in F. exact (F kv Hin).
    - destruct k as [z|s]; [|discriminate]. destruct (norm_index z (length ts)) as [i|]; [|discriminate].
      inversion Hs; subst t'. unfold dp in *. rewrite deep_lst in *. apply EvalProofs.forallb_set_nth; assumption.
  Qed.

  Lemma dp_set_at : forall p t v ii t' x, get_path t p = Some x -> p <> [] -> dp t -> dp v -> set_at t p v ii = Ok t' -> dp t'.
  Proof.
    induction p as [|k p IH]; intros t v ii t' x Hg Hne Hd Hv Hs; [contradiction|].
    cbn [get_path] in Hg. destruct (child t k) as [c0|e] eqn:Ec; [|discriminate Hg].
    apply KeyPathProofs.set_at_inv in Hs. destruct Hs as [x0 [Hsc [[Hp Hx]|[Hp [c [Ec' Hs']]]]]].
    - subst x0. exact (dp_set_child t k c0 v t' Hd Ec Hv Hsc).
    - rewrite Ec in Ec'. injection Ec' as <-.
      apply (dp_set_child t k c0 x0 t' Hd Ec); [|exact Hsc].
      exact (IH c0 v (S ii) x0 x Hg Hp (dp_child t k c0 Hd Ec) Hv Hs').
  Qed.

  Lemma insert_result_dp : forall fuel ph v d d', wf d = true -> wf v = true -> dp d -> dp v ->
    insert_result fuel ph v d = Ok d' -> dp d'.
  Proof.
    induction fuel as [|f IH]; intros ph v d d' Hw Hv Hd Hdv H; [discriminate|]. rewrite EvalProofs.insert_result_S in H.
    destruct (find_global_key ph d) as [p|] eqn:Ef; [|inversion H; subst; exact Hd].
    destruct (set_global_key d p v) as [d1|e] eqn:Es; cbn [bind] in H; [|discriminate].
    destruct (KeyPathProofs.find_sound ph d p Hw Ef) as [s [Hg _]].
    assert (Hd1 : dp d1) by exact (dp_set_at p d v 0%nat d1 _ Hg (EvalProofs.find_global_nonempty ph d p Ef) Hd Hdv Es).
    assert (Hw1 : wf d1 = true) by exact (EvalProofs.wf_set_at v p d 0%nat d1 Hw Hv Es).
    destruct (contains ph (py_str_tree v)); [inversion H; subst; exact Hd1|]. exact (IH ph v d1 d' Hw1 Hv Hd1 Hdv H).
  Qed.

  (* ---- the evaluation loop -------------------------------------------------------------------- *)
  Definition inv (st : sdict) : Prop :=
    wf (Dict (sd_data st)) = true /\ dp (Dict (sd_data st)) /\ sd_lc st = lc /\ sd_bc st = bc /\ sd_inc st = inc.
  Definition okacc (acc : option (res sdict)) : Prop := match acc with Some (Ok st) => inv st | _ => True end.
  Definition wdp (t : tree) : Prop := wf t = true /\ dp t.

  Lemma insert_step_inv st key ph v : inv st -> wdp v ->
    okacc (match insert_result (S (count_leaves (Dict (sd_data st)))) ph v (Dict (sd_data st)) with
           | Ok (Dict d') => Some (Ok (mkSD d' (sd_lc st) (sd_bc st) (sd_inc st) (tdel key (sd_expr st))))
           | Ok _ => Some (Ok st)
           | Raise er => Some (Raise er)
           end).
  Proof.
    intros (Hw & Hd & E1 & E2 & E3) [Hwv Hdv].
    destruct (insert_result (S (count_leaves (Dict (sd_data st)))) ph v (Dict (sd_data st))) as [t|er] eqn:Ei; [|exact I].
    pose proof (EvalProofs.insert_result_wf _ _ _ _ _ Hw Hwv Ei) as Hwt.
    pose proof (insert_result_dp _ _ _ _ _ Hw Hwv Hd Hdv Ei) as Hdt.
    destruct t as [s|d'|ts]; cbn [okacc]; unfold inv; cbn [sd_data sd_lc sd_bc sd_inc]; repeat split; assumption.
  Qed.

  Lemma pass_step_inv resolved acc e : Forall (fun p : str * tree => wdp (snd p)) resolved ->
    okacc acc -> okacc (EvalProofs.pass_step resolved acc e).
  Proof.
    intros Hr Hacc. destruct e as [key [e0 ph]].
    destruct acc as [[st|er]|]; [|exact I|exact I]. cbn [okacc] in Hacc. cbn [EvalProofs.pass_step].
    destruct (if is_plain_reference (strip e0) then rlookup (strip e0) resolved else None) as [t|] eqn:Ep.
    - assert (Ht : wdp t).
      { destruct (is_plain_reference (strip e0)); [|discriminate]. destruct (EvalProofs.rlookup_in _ _ _ Ep) as [q Hq].
        rewrite Forall_forall in Hr. apply (Hr _ Hq). }
      apply insert_step_inv; assumption.
    - destruct (has_char c_dollar (substitute resolved e0)); [exact Hacc|].
      destruct (pyeval (substitute resolved e0)) as [z| |]; [|exact Hacc|exact I].
      apply insert_step_inv; [exact Hacc|split; reflexivity].
  Qed.

  Lemma eval_pass_inv resolved s : Forall (fun p : str * tree => wdp (snd p)) resolved -> inv s -> okacc (eval_pass resolved s).
  Proof.
    intros Hr Hs. rewrite EvalProofs.eval_pass_fold.
    assert (G : forall l acc, okacc acc -> okacc (fold_left (EvalProofs.pass_step resolved) l acc)).
    { induction l as [|e l IH]; intros acc Hacc; [exact Hacc|]. cbn [fold_left]. apply IH. apply pass_step_inv; assumption. }
    apply G. exact Hs.
  Qed.

  Lemma wdp_dict_child kvs k c : wdp (Dict kvs) -> In (k, c) kvs -> wdp c.
  Proof. intros [H1 H2] Hin. split; [exact (KeyPathProofs.wf_dict_child kvs k c H1 Hin)|exact (dp_dict kvs k c H2 Hin)]. Qed.
  Lemma wdp_lst_child ts c : wdp (Lst ts) -> In c ts -> wdp c.
  Proof.
    intros [H1 H2] Hin. split; [|exact (dp_lst ts c H2 Hin)]. rewrite KeyPathProofs.wf_lst in H1. rewrite forallb_forall in H1. exact (H1 c Hin).
  Qed.

  Lemma resolve_all_inv s resolved u : inv s -> resolve_all s = Some (resolved, u) -> Forall (fun p : str * tree => wdp (snd p)) resolved.
  Proof.
    intros (Hw & Hd & _) H.
    exact (resolve_all_P wdp (fun s0 => conj eq_refl (dp_leaf s0)) wdp_dict_child wdp_lst_child s resolved u (conj Hw Hd) H).
  Qed.

  Lemma eval_loop_inv : forall f s resolved u, Forall (fun p : str * tree => wdp (snd p)) resolved -> inv s ->
    okacc (eval_loop f s resolved u).
  Proof.
    induction f as [|f IH]; intros s resolved u Hr Hs; [exact I|]. cbn [eval_loop].
    pose proof (eval_pass_inv resolved s Hr Hs) as Hp.
    destruct (eval_pass resolved s) as [[s'|er]|]; [|exact I|exact I]. cbn [okacc] in Hp.
    destruct (resolve_all s') as [[r' u']|] eqn:Era; [|exact I].
    destruct (Nat.ltb u' u); [|exact Hp]. apply IH; [exact (resolve_all_inv s' r' u' Hp Era)|exact Hp].
  Qed.

  Lemma back_insert_inv s s' : inv s -> back_insert s = Ok s' -> inv s'.
  Proof.
    intros (Hw & Hd & E1 & E2 & E3) H. unfold back_insert in H.
    match type of H with bind (fold_left ?F _ _) _ = _ => set (step := F) in H end.
    assert (G : forall l acc d', (forall d, acc = Ok d -> wf (Dict d) = true /\ dp (Dict d)) ->
                fold_left step l acc = Ok d' -> wf (Dict d') = true /\ dp (Dict d')).
    { induction l as [|[i [ex ph]] l IH]; intros acc d' Hacc Hf; [exact (Hacc d' Hf)|]. cbn [fold_left] in Hf.
      apply (IH _ d' ) in Hf; [exact Hf|]. intros d Hd0. unfold step in Hd0. destruct acc as [d0|er]; cbn [bind] in Hd0; [|discriminate Hd0].
      destruct (Hacc d0 eq_refl) as [W0 D0].
      destruct (insert_result (S (count_leaves (Dict d0))) ph (Leaf (SStr ex)) (Dict d0)) as [t|er] eqn:Ei; cbn [bind] in Hd0; [|discriminate Hd0].
      pose proof (EvalProofs.insert_result_wf _ _ (Leaf (SStr ex)) _ _ W0 eq_refl Ei) as Hwt.
      pose proof (insert_result_dp _ _ (Leaf (SStr ex)) _ _ W0 eq_refl D0 (dp_leaf _) Ei) as Hdt.
      destruct t as [x|dd|ts]; injection Hd0 as <-; split; assumption. }
    destruct (fold_left step (sd_expr s) (Ok (sd_data s))) as [d'|er] eqn:Ef; cbn [bind] in H; [|discriminate H].
    injection H as <-.
    assert (H0 : forall d, Ok (sd_data s) = Ok d -> wf (Dict d) = true /\ dp (Dict d)).
    { intros d Hd0. inversion Hd0; subst d. exact (conj Hw Hd). }
    destruct (G _ _ d' H0 Ef) as [W D].
    unfold inv. cbn [sd_data sd_lc sd_bc sd_inc]. repeat split; assumption.
  Qed.

  Theorem eval_expressions_inv s s1 : inv s -> eval_expressions s = Some (Ok s1) -> inv s1.
  Proof.
    intros Hs H. unfold eval_expressions in H. destruct (resolve_all s) as [[resolved u]|] eqn:Er; [|discriminate H].
    pose proof (eval_loop_inv (S (S u)) s resolved u (resolve_all_inv s resolved u Hs Er) Hs) as Hl.
    destruct (eval_loop (S (S u)) s resolved u) as [[s'|er]|]; [|discriminate H|discriminate H]. cbn [okacc] in Hl.
    destruct (back_insert s') as [s2|er] eqn:Eb; [|discriminate H]. injection H as <-. exact (back_insert_inv s' s2 Hl Eb).
  Qed.
End Deep.

(* every dict, also those inside lists, is clean w.r.t. the tables of the state *)
Definition deep_state (s : sdict) : bool := deep_data (sd_lc s) (sd_bc s) (sd_inc s) (Dict (sd_data s)).

Theorem eval_expressions_good : forall s s1, good s -> deep_state s = true -> eval_expressions s = Some (Ok s1) ->
  good s1 /\ deep_state s1 = true.
Proof.
  intros s s1 G D H. pose proof (good_wf s G) as Hw.
  destruct (eval_expressions_inv (sd_lc s) (sd_bc s) (sd_inc s) s s1 (conj Hw (conj D (conj eq_refl (conj eq_refl eq_refl)))) H)
    as (W1 & D1 & E1 & E2 & E3).
  unfold good, clean_state, tabs_ok, deep_state. rewrite E1, E2, E3. split; [split|exact D1].
  - rewrite W1. exact (deep_clean _ _ _ _ D1).
  - exact (proj2 G).
Qed.

(* DictReader.read, any flags, any scope: the result is clean when the parsed and include-merged state is deep *)
Theorem read_opts_good_deep : forall fs root inc order com scope c s k, fs_wf fs = true ->
  read_opts fs root inc order com scope c = Some (Ok (s, k)) ->
  (forall sm km, read_merged fs root inc com c = Ok (sm, km) -> deep_state sm = true) ->
  good s.
Proof.
  intros fs root inc order com scope c s k Hn H Hx. apply (read_opts_good_gen _ _ _ _ _ _ _ _ _ Hn H).
  intros sm km s1 Em Gm Ee. exact (proj1 (eval_expressions_good sm s1 Gm (Hx sm km Em) Ee)).
Qed.

(* both sufficient conditions in one: no expression entry, or a deep state *)
Definition eval_safe (sm : sdict) : bool := match sd_expr sm with [] => true | _ => deep_state sm end.

Theorem read_opts_good_safe : forall fs root inc order com scope c s k, fs_wf fs = true ->
  read_opts fs root inc order com scope c = Some (Ok (s, k)) ->
  (forall sm km, read_merged fs root inc com c = Ok (sm, km) -> eval_safe sm = true) ->
  good s.
Proof.
  intros fs root inc order com scope c s k Hn H Hx. apply (read_opts_good_gen _ _ _ _ _ _ _ _ _ Hn H).
  intros sm km s1 Em Gm Ee. pose proof (Hx sm km Em) as Hs. unfold eval_safe in Hs.
  destruct (sd_expr sm) as [|e l] eqn:Ex.
  - rewrite (eval_expressions_none sm Ex) in Ee. injection Ee as <-. destruct sm; exact Gm.
  - exact (proj1 (eval_expressions_good sm s1 Gm Hs Ee)).
Qed.

Print Assumptions eval_expressions_good.
Print Assumptions read_opts_good_safe.
Print Assumptions read_opts_good_deep.
