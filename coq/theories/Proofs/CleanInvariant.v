(* The clean-up invariant of SDict.
   clean_state s : at every dict level reachable through dicts, the table entries looked up for the placeholder keys of
   one kind (block comment / include / line comment) are pairwise different, and the data is well formed (keys of a
   level distinct).  This is what makes  sd_clean s = s  hold; the clean-up establishes it (for tables whose ids are
   distinct, as the keys of a Python dict are), hence it is idempotent; every parse / merge / update ends in it. *)
From Coq Require Import String.
From Coq Require Import NArith ZArith List Bool Lia Permutation.
From DictIO Require Import Chars Str Value Scalar KeyPath SDict TreeSpec.
From DictIO Require SDictProofs KeyPathProofs ParserFuelProofs RereadNum.
Import ListNotations.
Open Scope N_scope.

Import SDictProofs.
Definition kvals {V} := @RereadNum.kvals V.

(* ================================================================================================ *)
(* 1. boolean NoDup                                                                                 *)
(* ================================================================================================ *)
Section NoDupB.
  Context {V : Type} (veqb : V -> V -> bool).
  Hypothesis veqb_spec : forall a b, veqb a b = true <-> a = b.

  Fixpoint nodupb (l : list V) : bool :=
    match l with [] => true | x :: l' => negb (existsb (veqb x) l') && nodupb l' end.

  Lemma existsb_veqb_In v l : existsb (veqb v) l = true <-> In v l.
  Proof.
    rewrite existsb_exists. split.
    - intros (y & Hy & E). apply veqb_spec in E. subst y. exact Hy.
    - intros H. exists v. split; [exact H|]. apply veqb_spec. reflexivity.
  Qed.

  Lemma nodupb_iff l : nodupb l = true <-> NoDup l.
  Proof.
    induction l as [|x l IH]; cbn [nodupb].
    - split; [constructor|reflexivity].
    - rewrite andb_true_iff, negb_true_iff, IH. split.
      + intros [H1 H2]. constructor; [|exact H2]. intros Hin. apply existsb_veqb_In in Hin. congruence.
      + intros H. inversion H as [|? ? Hn Hd]; subst. split; [|exact Hd].
        destruct (existsb (veqb x) l) eqn:E; [|reflexivity]. apply existsb_veqb_In in E. contradiction.
  Qed.
End NoDupB.

Lemma str_eqb_spec a b : str_eqb a b = true <-> a = b.
Proof. apply SDictProofs.str_eqb_eq. Qed.
Lemma inc_eqb_spec a b : inc_eqb a b = true <-> a = b.
Proof.
  destruct a as [[a1 a2] a3], b as [[b1 b2] b3]. unfold inc_eqb. rewrite !andb_true_iff, !str_eqb_spec. split.
  - intros [[-> ->] ->]. reflexivity.
  - intros E. inversion E. auto.
Qed.

(* ================================================================================================ *)
(* 2. the invariant                                                                                 *)
(* ================================================================================================ *)
Definition level_ok (lc bc : list (N * str)) (inc : list (N * include_entry)) (kvs : list (key * tree)) : bool :=
  nodupb str_eqb (kvals (keys_of_kind PhBlock kvs) bc) &&
  nodupb inc_eqb (kvals (keys_of_kind PhInclude kvs) inc) &&
  nodupb str_eqb (kvals (keys_of_kind PhLine kvs) lc).

(* every dict level reachable through dicts (the clean-up does not enter lists) *)
Fixpoint clean_data (lc bc : list (N * str)) (inc : list (N * include_entry)) (t : tree) {struct t} : bool :=
  match t with
  | Dict kvs =>
      level_ok lc bc inc kvs &&
      (fix go (l : list (key * tree)) : bool :=
         match l with
         | [] => true
         | (_, c) :: l' => (match c with Dict _ => clean_data lc bc inc c | _ => true end) && go l'
         end) kvs
  | _ => true
  end.

Definition clean_state (s : sdict) : bool :=
  wf (Dict (sd_data s)) && clean_data (sd_lc s) (sd_bc s) (sd_inc s) (Dict (sd_data s)).

(* the ids of a side table are distinct (they are the keys of a Python dict) *)
Definition ids_ok {V} (tab : list (N * V)) : bool := nodupb N.eqb (map fst tab).
Definition tabs_ok (s : sdict) : bool := ids_ok (sd_lc s) && ids_ok (sd_bc s) && ids_ok (sd_inc s).

Lemma ids_ok_iff {V} (tab : list (N * V)) : ids_ok tab = true <-> NoDup (map fst tab).
Proof. apply nodupb_iff. intros a b. apply N.eqb_eq. Qed.

Definition child_ok (lc bc : list (N * str)) (inc : list (N * include_entry)) (kv : key * tree) : Prop :=
  forall sub, snd kv = Dict sub -> clean_data lc bc inc (Dict sub) = true.

Lemma clean_data_dict lc bc inc kvs :
  clean_data lc bc inc (Dict kvs) = true <-> level_ok lc bc inc kvs = true /\ Forall (child_ok lc bc inc) kvs.
Proof.
  cbn [clean_data]. rewrite andb_true_iff.
  assert (H : forall l, (fix go (l : list (key * tree)) : bool :=
                 match l with
                 | [] => true
                 | (_, c) :: l' => (match c with Dict _ => clean_data lc bc inc c | _ => true end) && go l'
                 end) l = true <-> Forall (child_ok lc bc inc) l).
  { induction l as [|[k c] l IH].
    - split; [constructor|reflexivity].
    - rewrite andb_true_iff, IH. split.
      + intros [H1 H2]. constructor; [|exact H2]. intros sub E. cbn [snd] in E. subst c. exact H1.
      + intros H. inversion H as [|? ? Hc Hl]; subst. split; [|exact Hl].
        destruct c as [x|sub|ts]; try reflexivity. apply Hc. reflexivity. }
  rewrite H. reflexivity.
Qed.

Lemma level_ok_iff lc bc inc kvs :
  level_ok lc bc inc kvs = true <->
  NoDup (kvals (keys_of_kind PhBlock kvs) bc) /\ NoDup (kvals (keys_of_kind PhInclude kvs) inc) /\
  NoDup (kvals (keys_of_kind PhLine kvs) lc).
Proof.
  unfold level_ok. rewrite !andb_true_iff, !(nodupb_iff str_eqb str_eqb_spec), (nodupb_iff inc_eqb inc_eqb_spec). tauto.
Qed.

(* hereditary *)
Lemma clean_data_child lc bc inc kvs k sub :
  clean_data lc bc inc (Dict kvs) = true -> In (k, Dict sub) kvs -> clean_data lc bc inc (Dict sub) = true.
Proof.
  intros H Hin. apply clean_data_dict in H. destruct H as [_ H]. rewrite Forall_forall in H.
  exact (H _ Hin sub eq_refl).
Qed.

Lemma alookup_In {V} k (v : V) l : alookup k l = Some v -> In (k, v) l.
Proof.
  induction l as [|[k0 v0] l IH]; cbn [alookup]; [discriminate|].
  destruct (key_eqb k k0) eqn:E.
  - intros H. injection H as ->. apply SDictProofs.key_eqb_eq in E. subst k0. left. reflexivity.
  - intros H. right. exact (IH H).
Qed.

Lemma clean_data_dpath lc bc inc : forall p t sub,
  clean_data lc bc inc t = true -> get_dpath t p = Some (Dict sub) -> clean_data lc bc inc (Dict sub) = true.
Proof.
  induction p as [|k p IH]; intros t sub Hc Hp; cbn [get_dpath] in Hp.
  - injection Hp as ->. exact Hc.
  - destruct t as [x|kvs|ts]; try discriminate Hp.
    destruct (alookup k kvs) as [c|] eqn:E; [|discriminate Hp].
    destruct p as [|k' p'].
    + cbn [get_dpath] in Hp. injection Hp as ->. exact (clean_data_child _ _ _ _ _ _ Hc (alookup_In _ _ _ E)).
    + destruct c as [x|kvs'|ts]; try (cbn [get_dpath] in Hp; discriminate Hp).
      apply (IH (Dict kvs') sub); [|exact Hp]. exact (clean_data_child _ _ _ _ _ _ Hc (alookup_In _ _ _ E)).
Qed.

Lemma wf_dpath : forall p t c, wf t = true -> get_dpath t p = Some c -> wf c = true.
Proof.
  induction p as [|k p IH]; intros t c Hw Hp; cbn [get_dpath] in Hp.
  - injection Hp as ->. exact Hw.
  - destruct t as [x|kvs|ts]; try discriminate Hp.
    destruct (alookup k kvs) as [c0|] eqn:E; [|discriminate Hp].
    apply (IH c0 c); [|exact Hp]. exact (KeyPathProofs.wf_dict_child kvs k c0 Hw (alookup_In _ _ _ E)).
Qed.

(* ================================================================================================ *)
(* 3. a clean state is a fixed point of the clean-up                                                *)
(* ================================================================================================ *)
Lemma clean_level_id data s : level_ok (sd_lc s) (sd_bc s) (sd_inc s) data = true -> clean_level data s = (data, s).
Proof.
  intros H. apply level_ok_iff in H. destruct H as (Hb & Hi & Hl). unfold clean_level.
  rewrite (RereadNum.clean_kind_keep str_eqb (fun a b => proj1 (str_eqb_spec a b)) _ data (sd_bc s) [] Hb).
  rewrite (RereadNum.clean_kind_keep inc_eqb (fun a b => proj1 (inc_eqb_spec a b)) _ data (sd_inc s) [] Hi).
  rewrite (RereadNum.clean_kind_keep str_eqb (fun a b => proj1 (str_eqb_spec a b)) _ data (sd_lc s) [] Hl).
  destruct s; reflexivity.
Qed.

Lemma clean_tree_id : forall fuel data s,
  clean_data (sd_lc s) (sd_bc s) (sd_inc s) (Dict data) = true -> wf (Dict data) = true -> clean_tree fuel data s = (data, s).
Proof.
  induction fuel as [|f IH]; intros data s Hc Hw; [reflexivity|].
  rewrite clean_tree_S. apply wf_Dict_iff in Hw. destruct Hw as [Hnd Hw].
  pose proof (proj1 (clean_data_dict _ _ _ _) Hc) as [Hlv Hch].
  rewrite (clean_level_id data s Hlv). cbn [fst].
  assert (Hgen : forall l, (forall kv, In kv l -> In kv data) -> fold_left (cstep f) l (data, s) = (data, s)).
  { induction l as [|[k v] l IHl]; intros Hsub; [reflexivity|]. cbn [fold_left].
    assert (Hin : In (k, v) data) by (apply Hsub; left; reflexivity).
    assert (Hcs : cstep f (data, s) (k, v) = (data, s)).
    { unfold cstep. cbn [fst snd]. destruct v as [x|sub|ts]; try reflexivity.
      rewrite Forall_forall in Hw. pose proof (Hw _ Hin) as Hws. unfold wfkv in Hws. cbn [snd] in Hws.
      rewrite (IH sub s (clean_data_child _ _ _ _ _ _ Hc Hin) Hws).
      rewrite aset_same; [reflexivity|]. apply alookup_In_nodup; assumption. }
    rewrite Hcs. apply IHl. intros kv H'. apply Hsub. right. exact H'. }
  apply Hgen. auto.
Qed.

Theorem clean_state_fix : forall s, clean_state s = true -> sd_clean s = s.
Proof.
  intros s H. unfold clean_state in H. apply andb_true_iff in H. destruct H as [Hw Hc].
  unfold sd_clean. rewrite (clean_tree_id _ (sd_data s) s Hc Hw). destruct s; reflexivity.
Qed.

(* the update of an emptied dict with the data of a clean state gives the state back *)
Lemma clean_data_fix d lc bc inc ex : wf (Dict d) = true -> clean_data lc bc inc (Dict d) = true ->
  sd_clean (mkSD d lc bc inc ex) = mkSD d lc bc inc ex.
Proof.
  intros Hw Hc. apply clean_state_fix. unfold clean_state. cbn [sd_data sd_lc sd_bc sd_inc]. rewrite Hw, Hc. reflexivity.
Qed.

(* ================================================================================================ *)
(* 4. tables that only lose entries                                                                 *)
(* ================================================================================================ *)
Lemma NoDup_app_tail {A} (a b : list A) : NoDup (a ++ b) -> NoDup b.
Proof. induction a as [|x a IH]; intros H; [exact H|]. inversion H; subst. apply IH. assumption. Qed.
Lemma NoDup_app_swap {A} (a b : list A) : NoDup (b ++ a) -> NoDup (a ++ b).
Proof. intros H. apply (Permutation_NoDup (l := b ++ a)); [apply Permutation_app_comm|exact H]. Qed.

Section TabSub.
  Context {V : Type}.
  Implicit Types (tab : list (N * V)).

  Definition tsub tab' tab : Prop := forall i v, tlookup i tab' = Some v -> tlookup i tab = Some v.

  Lemma tsub_refl tab : tsub tab tab.
  Proof. intros i v H. exact H. Qed.
  Lemma tsub_trans a b c : tsub a b -> tsub b c -> tsub a c.
  Proof. intros H1 H2 i v H. apply H2, H1, H. Qed.

  Lemma tlookup_tdel_other i j tab : j <> i -> tlookup j (tdel i tab) = tlookup j tab.
  Proof.
    intros Hne. induction tab as [|[i0 v0] tab IH]; [reflexivity|]. cbn [tdel].
    destruct (N.eqb i i0) eqn:E.
    - apply N.eqb_eq in E. subst i0. cbn [tlookup]. destruct (N.eqb j i) eqn:E2; [|reflexivity].
      apply N.eqb_eq in E2. contradiction.
    - cbn [tlookup]. rewrite IH. reflexivity.
  Qed.
  Lemma tlookup_tdel_same i tab : NoDup (map fst tab) -> tlookup i (tdel i tab) = None.
  Proof.
    induction tab as [|[i0 v0] tab IH]; intros Hnd; [reflexivity|]. cbn [map fst] in Hnd.
    inversion Hnd as [|? ? Hn Hd]; subst. cbn [tdel]. destruct (N.eqb i i0) eqn:E.
    - apply N.eqb_eq in E. subst i0. apply tlookup_notin. exact Hn.
    - cbn [tlookup]. rewrite E. apply IH. exact Hd.
  Qed.
  Lemma tdel_keys_incl i tab x : In x (map fst (tdel i tab)) -> In x (map fst tab).
  Proof.
    induction tab as [|[i0 v0] tab IH]; [intros []|]. cbn [tdel]. destruct (N.eqb i i0).
    - intros H. right. exact H.
    - cbn [map fst]. intros [H|H]; [left; exact H|right; exact (IH H)].
  Qed.
  Lemma tdel_nodup i tab : NoDup (map fst tab) -> NoDup (map fst (tdel i tab)).
  Proof.
    induction tab as [|[i0 v0] tab IH]; intros Hnd; [constructor|]. cbn [map fst] in Hnd.
    inversion Hnd as [|? ? Hn Hd]; subst. cbn [tdel]. destruct (N.eqb i i0); [exact Hd|].
    cbn [map fst]. constructor; [|exact (IH Hd)]. intros H. apply Hn. exact (tdel_keys_incl _ _ _ H).
  Qed.
  Lemma tsub_tdel i tab : NoDup (map fst tab) -> tsub (tdel i tab) tab.
  Proof.
    intros Hnd j v H. destruct (N.eq_dec j i) as [->|Hne].
    - rewrite (tlookup_tdel_same i tab Hnd) in H. discriminate H.
    - rewrite (tlookup_tdel_other i j tab Hne) in H. exact H.
  Qed.

  (* fewer entries: fewer looked-up values, in the same order *)
  Lemma kvals_cons k keys tab : kvals (k :: keys) tab = kvals [k] tab ++ kvals keys tab.
  Proof. unfold kvals, RereadNum.kvals. cbn [flat_map]. rewrite app_nil_r. reflexivity. Qed.
  Lemma kvals_one_cases k tab :
    (kvals [k] tab = [] /\ forall i, key_id k = Some i -> tlookup i tab = None) \/
    (exists i v, key_id k = Some i /\ tlookup i tab = Some v /\ kvals [k] tab = [v]).
  Proof.
    unfold kvals, RereadNum.kvals. cbn [flat_map]. rewrite app_nil_r. destruct (key_id k) as [i|].
    - destruct (tlookup i tab) as [v|] eqn:E.
      + right. exists i, v. repeat split. exact E.
      + left. split; [reflexivity|]. intros j Hj. injection Hj as <-. exact E.
    - left. split; [reflexivity|]. intros j Hj. discriminate Hj.
  Qed.
  Lemma kvals_incl keys tab' tab : tsub tab' tab -> forall v, In v (kvals keys tab') -> In v (kvals keys tab).
  Proof.
    intros Hs. induction keys as [|k keys IH]; intros v H; [exact H|].
    rewrite kvals_cons in H |- *. apply in_app_or in H. apply in_or_app. destruct H as [H|H]; [left|right; exact (IH _ H)].
    destruct (kvals_one_cases k tab') as [[E _]|(i & w & Ek & El & E)]; rewrite E in H; [destruct H|].
    destruct H as [<-|[]]. destruct (kvals_one_cases k tab) as [[_ E2]|(i2 & w2 & Ek2 & El2 & E2)].
    - pose proof (Hs i w El) as Hx. rewrite (E2 i Ek) in Hx. discriminate Hx.
    - rewrite E2. rewrite Ek in Ek2. injection Ek2 as <-. rewrite (Hs i w El) in El2. injection El2 as <-. left. reflexivity.
  Qed.
  Lemma kvals_nodup_sub keys tab' tab : tsub tab' tab -> NoDup (kvals keys tab) -> NoDup (kvals keys tab').
  Proof.
    intros Hs. induction keys as [|k keys IH]; intros H; [exact H|].
    rewrite kvals_cons in H |- *.
    destruct (kvals_one_cases k tab') as [[E _]|(i & w & Ek & El & E)]; rewrite E.
    - cbn [app]. apply IH. exact (NoDup_app_tail _ _ H).
    - destruct (kvals_one_cases k tab) as [[_ E2]|(i2 & w2 & Ek2 & El2 & E2)].
      + pose proof (Hs i w El) as Hx. rewrite (E2 i Ek) in Hx. discriminate Hx.
      + rewrite E2 in H. rewrite Ek in Ek2. injection Ek2 as <-. rewrite (Hs i w El) in El2. injection El2 as <-.
        cbn [app] in H |- *. inversion H as [|? ? Hn Hd]; subst. constructor; [|exact (IH Hd)].
        intros Hin. apply Hn. exact (kvals_incl keys tab' tab Hs _ Hin).
  Qed.
End TabSub.

(* ================================================================================================ *)
(* 5. one pass of the clean-up for one kind                                                         *)
(* ================================================================================================ *)
Definition memk (k : key) (l : list key) : bool := existsb (key_eqb k) l.
Definition kept (dels : list key) (k : key) : bool := negb (memk k dels).
Definition adels (dels : list key) (data : list (key * tree)) : list (key * tree) := fold_left (fun d k => adel k d) dels data.

Lemma memk_In k l : memk k l = true <-> In k l.
Proof. unfold memk. apply (existsb_veqb_In key_eqb key_eqb_eq). Qed.
Lemma kept_notin dels k : ~ In k dels -> kept dels k = true.
Proof. intros H. unfold kept. destruct (memk k dels) eqn:E; [|reflexivity]. apply memk_In in E. contradiction. Qed.

Section CleanKindSpec.
  Context {V : Type} (veqb : V -> V -> bool).
  Hypothesis veqb_spec : forall a b, veqb a b = true <-> a = b.

  Lemma ck_spec : forall keys data (tab : list (N * V)) seen d' tab',
    NoDup (map fst tab) -> NoDup keys -> NoDup seen -> clean_kind veqb keys data tab seen = (d', tab') ->
    NoDup (map fst tab') /\ tsub tab' tab /\
    exists dels, incl dels keys /\ d' = adels dels data /\ NoDup (seen ++ kvals (filter (kept dels) keys) tab').
  Proof.
    induction keys as [|k keys IH]; intros data tab seen d' tab' Hnt Hnk Hns H.
    - cbn [clean_kind] in H. injection H as <- <-. split; [exact Hnt|]. split; [apply tsub_refl|].
      exists []. split; [intros x []|]. split; [reflexivity|]. cbn [filter]. unfold kvals, RereadNum.kvals. cbn [flat_map].
      rewrite app_nil_r. exact Hns.
    - inversion Hnk as [|? ? Hk Hnk']; subst. cbn [clean_kind] in H.
      (* the key is kept and contributes nothing *)
      assert (Hskip : forall tab0, clean_kind veqb keys data tab0 seen = (d', tab') -> NoDup (map fst tab0) -> tsub tab0 tab ->
                 (forall i, key_id k = Some i -> tlookup i tab0 = None) ->
                 NoDup (map fst tab') /\ tsub tab' tab /\
                 exists dels, incl dels (k :: keys) /\ d' = adels dels data /\
                              NoDup (seen ++ kvals (filter (kept dels) (k :: keys)) tab')).
      { intros tab0 H0 Hnt0 Hs0 Hnone. destruct (IH data tab0 seen d' tab' Hnt0 Hnk' Hns H0) as (N1 & S1 & dels & I1 & E1 & D1).
        split; [exact N1|]. split; [exact (tsub_trans _ _ _ S1 Hs0)|]. exists dels. split; [intros x Hx; right; exact (I1 x Hx)|].
        split; [exact E1|]. cbn [filter]. rewrite (kept_notin dels k) by (intros Hin; apply Hk; exact (I1 _ Hin)).
        rewrite kvals_cons. destruct (kvals_one_cases k tab') as [[E _]|(i & w & Ek & El & _)].
        - rewrite E. exact D1.
        - pose proof (S1 i w El) as Hx. rewrite (Hnone i Ek) in Hx. discriminate Hx. }
      destruct (key_id k) as [i|] eqn:Ek; [|apply (Hskip tab H Hnt (tsub_refl tab)); intros i Hi; discriminate Hi].
      destruct (tlookup i tab) as [v|] eqn:El; [|apply (Hskip tab H Hnt (tsub_refl tab)); intros j Hj; injection Hj as <-; exact El].
      destruct (existsb (veqb v) seen) eqn:Ex.
      + (* a duplicate: entry and table row are deleted *)
        destruct (IH (adel k data) (tdel i tab) seen d' tab' (tdel_nodup i tab Hnt) Hnk' Hns H) as (N1 & S1 & dels & I1 & E1 & D1).
        split; [exact N1|]. split; [exact (tsub_trans _ _ _ S1 (tsub_tdel i tab Hnt))|].
        exists (k :: dels). split; [intros x [<-|Hx]; [left; reflexivity|right; exact (I1 x Hx)]|].
        split; [exact E1|]. cbn [filter]. unfold kept at 1. unfold memk. cbn [existsb]. rewrite key_eqb_refl. cbn [orb negb].
        rewrite (filter_ext_in (kept (k :: dels)) (kept dels)); [exact D1|].
        intros x Hx. unfold kept, memk. cbn [existsb]. destruct (key_eqb x k) eqn:E; [|reflexivity].
        apply key_eqb_eq in E. subst x. contradiction.
      + (* first occurrence of the value *)
        assert (Hns' : NoDup (seen ++ [v])).
        { apply NoDup_app_swap. cbn [app]. constructor; [|exact Hns]. intros Hin.
          apply (existsb_veqb_In veqb veqb_spec) in Hin. congruence. }
        destruct (IH data tab (seen ++ [v]) d' tab' Hnt Hnk' Hns' H) as (N1 & S1 & dels & I1 & E1 & D1).
        split; [exact N1|]. split; [exact S1|]. exists dels. split; [intros x Hx; right; exact (I1 x Hx)|].
        split; [exact E1|]. cbn [filter]. rewrite (kept_notin dels k) by (intros Hin; apply Hk; exact (I1 _ Hin)).
        rewrite kvals_cons. rewrite <- app_assoc in D1. cbn [app] in D1.
        destruct (kvals_one_cases k tab') as [[E _]|(i2 & w & Ek2 & El2 & E)]; rewrite E.
        * cbn [app]. exact (NoDup_remove_1 _ _ _ D1).
        * rewrite Ek in Ek2. injection Ek2 as <-. rewrite (S1 i w El2) in El. injection El as ->. exact D1.
  Qed.
End CleanKindSpec.

(* ================================================================================================ *)
(* 6. one level                                                                                     *)
(* ================================================================================================ *)
Definition is_kind (kd : ph_kind) (k : key) : bool :=
  match ph_kind_of k, kd with
  | Some PhBlock, PhBlock | Some PhInclude, PhInclude | Some PhLine, PhLine => true
  | _, _ => false
  end.
Lemma keys_of_kind_filter kd data : keys_of_kind kd data = filter (is_kind kd) (map fst data).
Proof. reflexivity. Qed.
Lemma is_kind_unique k kd1 kd2 : is_kind kd1 k = true -> is_kind kd2 k = true -> kd1 = kd2.
Proof. unfold is_kind. destruct (ph_kind_of k) as [[| |]|], kd1, kd2; intros H1 H2; try discriminate; reflexivity. Qed.

Lemma filter_filter {A} (f g : A -> bool) l : filter f (filter g l) = filter (fun x => g x && f x) l.
Proof.
  induction l as [|x l IH]; [reflexivity|]. cbn [filter]. destruct (g x); cbn [andb filter]; [destruct (f x)|]; rewrite IH; reflexivity.
Qed.
Lemma filter_true_notin (k : key) l : ~ In k l -> filter (kept [k]) l = l.
Proof.
  induction l as [|x l IH]; intros H; [reflexivity|]. cbn [filter]. unfold kept at 1, memk. cbn [existsb].
  destruct (key_eqb x k) eqn:E.
  - apply key_eqb_eq in E. subst x. exfalso. apply H. left. reflexivity.
  - cbn [orb negb]. rewrite IH; [reflexivity|]. intros Hin. apply H. right. exact Hin.
Qed.
Lemma map_fst_adel k (d : list (key * tree)) : NoDup (map fst d) -> map fst (adel k d) = filter (kept [k]) (map fst d).
Proof.
  induction d as [|[k0 v0] d IH]; intros Hnd; [reflexivity|]. cbn [map fst] in Hnd. inversion Hnd as [|? ? Hn Hd]; subst.
  cbn [adel map fst filter]. unfold kept at 1, memk. cbn [existsb]. destruct (key_eqb k k0) eqn:E.
  - apply key_eqb_eq in E. subst k0. rewrite key_eqb_refl. cbn [orb negb]. symmetry. apply filter_true_notin. exact Hn.
  - assert (E' : key_eqb k0 k = false).
    { destruct (key_eqb k0 k) eqn:E2; [|reflexivity]. apply key_eqb_eq in E2. subst k0. rewrite key_eqb_refl in E. discriminate E. }
    rewrite E'. cbn [orb negb map fst]. rewrite (IH Hd). reflexivity.
Qed.
Lemma adels_nodup dels : forall (d : list (key * tree)), NoDup (map fst d) -> NoDup (map fst (adels dels d)).
Proof.
  induction dels as [|k dels IH]; intros d H; [exact H|]. unfold adels. cbn [fold_left]. apply IH. apply adel_nodup. exact H.
Qed.
Lemma map_fst_adels dels : forall (d : list (key * tree)), NoDup (map fst d) -> map fst (adels dels d) = filter (kept dels) (map fst d).
Proof.
  induction dels as [|k dels IH]; intros d Hnd.
  - unfold adels. cbn [fold_left]. clear Hnd. induction (map fst d) as [|x l IHl]; [reflexivity|]. cbn [filter]. unfold kept at 1, memk. cbn [existsb negb]. rewrite <- IHl. reflexivity.
  - unfold adels. cbn [fold_left]. fold (adels dels (adel k d)). rewrite (IH _ (adel_nodup k d Hnd)), (map_fst_adel k d Hnd), filter_filter.
    apply filter_ext. intros x. unfold kept, memk. cbn [existsb]. destruct (key_eqb x k); reflexivity.
Qed.
Lemma adels_app a b (d : list (key * tree)) : adels (a ++ b) d = adels b (adels a d).
Proof. unfold adels. apply fold_left_app. Qed.
Lemma adels_incl dels : forall (d : list (key * tree)) x, In x (adels dels d) -> In x d.
Proof.
  induction dels as [|k dels IH]; intros d x H; [exact H|]. unfold adels in H. cbn [fold_left] in H.
  exact (adel_incl k d x (IH _ _ H)).
Qed.

Definition tabs_nd (s : sdict) : Prop := NoDup (map fst (sd_lc s)) /\ NoDup (map fst (sd_bc s)) /\ NoDup (map fst (sd_inc s)).
Definition tabs_sub (s' s : sdict) : Prop := tsub (sd_lc s') (sd_lc s) /\ tsub (sd_bc s') (sd_bc s) /\ tsub (sd_inc s') (sd_inc s).

Lemma tabs_ok_iff s : tabs_ok s = true <-> tabs_nd s.
Proof. unfold tabs_ok, tabs_nd. rewrite !andb_true_iff, !ids_ok_iff. tauto. Qed.
Lemma tabs_sub_refl s : tabs_sub s s.
Proof. repeat split; apply tsub_refl. Qed.
Lemma tabs_sub_trans a b c : tabs_sub a b -> tabs_sub b c -> tabs_sub a c.
Proof. intros (A1 & A2 & A3) (B1 & B2 & B3). repeat split; eapply tsub_trans; eassumption. Qed.

Lemma keys_of_kind_nodup kd data : NoDup (map fst data) -> NoDup (keys_of_kind kd data).
Proof. intros H. rewrite keys_of_kind_filter. apply NoDup_filter. exact H. Qed.

(* the keys of one kind that survive the deletion of [dels], when only [mine] among them are of that kind *)
Lemma keys_of_kind_adels kd data mine dels : NoDup (map fst data) ->
  (forall k, In k dels -> is_kind kd k = true -> In k mine) -> incl mine dels ->
  keys_of_kind kd (adels dels data) = filter (kept mine) (keys_of_kind kd data).
Proof.
  intros Hnd Hm Hi. rewrite !keys_of_kind_filter, (map_fst_adels dels data Hnd), !filter_filter.
  apply filter_ext. intros k. destruct (is_kind kd k) eqn:Ek; [|rewrite andb_false_r; reflexivity].
  rewrite andb_true_r, andb_true_l. unfold kept. f_equal.
  destruct (memk k dels) eqn:E1, (memk k mine) eqn:E2; try reflexivity.
  - apply memk_In in E1. pose proof (Hm k E1 Ek) as H. apply memk_In in H. congruence.
  - apply memk_In in E2. apply Hi in E2. apply memk_In in E2. congruence.
Qed.

Lemma level_nodup_sub lc bc inc lc' bc' inc' kvs : tsub lc' lc -> tsub bc' bc -> tsub inc' inc ->
  level_ok lc bc inc kvs = true -> level_ok lc' bc' inc' kvs = true.
Proof.
  intros S1 S2 S3 H. apply level_ok_iff in H. destruct H as (H1 & H2 & H3). apply level_ok_iff.
  split; [exact (kvals_nodup_sub _ _ _ S2 H1)|]. split; [exact (kvals_nodup_sub _ _ _ S3 H2)|exact (kvals_nodup_sub _ _ _ S1 H3)].
Qed.

Lemma clean_level_spec data s d' s' : NoDup (map fst data) -> tabs_nd s -> clean_level data s = (d', s') ->
  tabs_nd s' /\ tabs_sub s' s /\ sd_expr s' = sd_expr s /\ (exists dels, d' = adels dels data) /\
  level_ok (sd_lc s') (sd_bc s') (sd_inc s') d' = true.
Proof.
  intros Hnd (Nl & Nb & Ni) H. unfold clean_level in H.
  destruct (clean_kind str_eqb (keys_of_kind PhBlock data) data (sd_bc s) []) as [d1 bc] eqn:E1.
  destruct (clean_kind inc_eqb (keys_of_kind PhInclude data) d1 (sd_inc s) []) as [d2 inc] eqn:E2.
  destruct (clean_kind str_eqb (keys_of_kind PhLine data) d2 (sd_lc s) []) as [d3 lc] eqn:E3.
  injection H as <- <-. cbn [sd_lc sd_bc sd_inc sd_expr].
  destruct (ck_spec str_eqb str_eqb_spec _ _ _ _ _ _ Nb (keys_of_kind_nodup PhBlock data Hnd) (NoDup_nil _) E1)
    as (Nb' & Sb & delsB & IB & -> & DB).
  destruct (ck_spec inc_eqb inc_eqb_spec _ _ _ _ _ _ Ni (keys_of_kind_nodup PhInclude data Hnd) (NoDup_nil _) E2)
    as (Ni' & Si & delsI & II & -> & DI).
  destruct (ck_spec str_eqb str_eqb_spec _ _ _ _ _ _ Nl (keys_of_kind_nodup PhLine data Hnd) (NoDup_nil _) E3)
    as (Nl' & Sl & delsL & IL & -> & DL).
  cbn [app] in DB, DI, DL.
  split; [repeat split; assumption|]. split; [repeat split; assumption|]. split; [reflexivity|].
  rewrite <- !adels_app. split; [eexists; reflexivity|].
  assert (KB : forall k, In k delsB -> is_kind PhBlock k = true).
  { intros k Hk. apply IB in Hk. rewrite keys_of_kind_filter in Hk. apply filter_In in Hk. tauto. }
  assert (KI' : forall k, In k delsI -> is_kind PhInclude k = true).
  { intros k Hk. apply II in Hk. rewrite keys_of_kind_filter in Hk. apply filter_In in Hk. tauto. }
  assert (KL : forall k, In k delsL -> is_kind PhLine k = true).
  { intros k Hk. apply IL in Hk. rewrite keys_of_kind_filter in Hk. apply filter_In in Hk. tauto. }
  apply level_ok_iff. split; [|split].
  - rewrite (keys_of_kind_adels PhBlock data delsB _ Hnd); [exact DB| |intros x Hx; apply in_or_app; left; exact Hx].
    intros k Hk Hkd. apply in_app_or in Hk. destruct Hk as [Hk|Hk]; [|apply in_app_or in Hk; destruct Hk as [Hk|Hk]].
    + exact Hk.
    + pose proof (is_kind_unique _ _ _ Hkd (KI' k Hk)). discriminate.
    + pose proof (is_kind_unique _ _ _ Hkd (KL k Hk)). discriminate.
  - rewrite (keys_of_kind_adels PhInclude data delsI _ Hnd); [exact DI| |intros x Hx; apply in_or_app; right; apply in_or_app; left; exact Hx].
    intros k Hk Hkd. apply in_app_or in Hk. destruct Hk as [Hk|Hk]; [|apply in_app_or in Hk; destruct Hk as [Hk|Hk]].
    + pose proof (is_kind_unique _ _ _ Hkd (KB k Hk)). discriminate.
    + exact Hk.
    + pose proof (is_kind_unique _ _ _ Hkd (KL k Hk)). discriminate.
  - rewrite (keys_of_kind_adels PhLine data delsL _ Hnd); [exact DL| |intros x Hx; apply in_or_app; right; apply in_or_app; right; exact Hx].
    intros k Hk Hkd. apply in_app_or in Hk. destruct Hk as [Hk|Hk]; [|apply in_app_or in Hk; destruct Hk as [Hk|Hk]].
    + pose proof (is_kind_unique _ _ _ Hkd (KB k Hk)). discriminate.
    + pose proof (is_kind_unique _ _ _ Hkd (KI' k Hk)). discriminate.
    + exact Hk.
Qed.

(* ================================================================================================ *)
(* 7. the nested pass as a map with threaded tables                                                 *)
(* ================================================================================================ *)
Fixpoint cmap (f : nat) (l : list (key * tree)) (s : sdict) : list (key * tree) * sdict :=
  match l with
  | [] => ([], s)
  | (k, v) :: l' =>
      match v with
      | Dict sub => let '(sub', s1) := clean_tree f sub s in
                    let '(r, s2) := cmap f l' s1 in ((k, Dict sub') :: r, s2)
      | _ => let '(r, s2) := cmap f l' s in ((k, v) :: r, s2)
      end
  end.

Lemma aset_mid k (v v' : tree) pre l : ~ In k (map fst pre) -> aset k v' (pre ++ (k, v) :: l) = pre ++ (k, v') :: l.
Proof.
  induction pre as [|[k0 v0] pre IH]; intros H; cbn [app aset].
  - rewrite key_eqb_refl. reflexivity.
  - destruct (key_eqb k k0) eqn:E.
    + apply key_eqb_eq in E. subst k0. exfalso. apply H. left. reflexivity.
    + rewrite IH; [reflexivity|]. intros Hin. apply H. right. exact Hin.
Qed.

Lemma cmap_keys f : forall l s, map fst (fst (cmap f l s)) = map fst l.
Proof.
  induction l as [|[k v] l IH]; intros s; [reflexivity|]. cbn [cmap].
  destruct v as [x|sub|ts].
  - specialize (IH s). destruct (cmap f l s) as [r s2]. cbn [fst map] in *. rewrite IH. reflexivity.
  - destruct (clean_tree f sub s) as [sub' s1]. specialize (IH s1). destruct (cmap f l s1) as [r s2]. cbn [fst map] in *. rewrite IH. reflexivity.
  - specialize (IH s). destruct (cmap f l s) as [r s2]. cbn [fst map] in *. rewrite IH. reflexivity.
Qed.

Lemma fold_cstep_cmap f : forall l pre s, NoDup (map fst (pre ++ l)) ->
  fold_left (cstep f) l (pre ++ l, s) = (pre ++ fst (cmap f l s), snd (cmap f l s)).
Proof.
  induction l as [|[k v] l IH]; intros pre s Hnd; [reflexivity|]. cbn [fold_left].
  assert (Hk : ~ In k (map fst pre)).
  { rewrite map_app in Hnd. cbn [map fst] in Hnd. apply NoDup_remove_2 in Hnd. intros Hin. apply Hnd. apply in_or_app. left. exact Hin. }
  assert (Hpre : forall v', NoDup (map fst ((pre ++ [(k, v')]) ++ l))).
  { intros v'. rewrite <- app_assoc. cbn [app]. rewrite map_app in Hnd |- *. exact Hnd. }
  unfold cstep at 2. cbn [fst snd cmap]. destruct v as [x|sub|ts].
  - specialize (IH (pre ++ [(k, Leaf x)]) s (Hpre _)). rewrite <- app_assoc in IH. cbn [app] in IH. rewrite IH.
    destruct (cmap f l s) as [r s2]. cbn [fst snd]. rewrite <- app_assoc. reflexivity.
  - destruct (clean_tree f sub s) as [sub' s1]. rewrite (aset_mid k (Dict sub) (Dict sub') pre l Hk).
    specialize (IH (pre ++ [(k, Dict sub')]) s1 (Hpre _)). rewrite <- app_assoc in IH. cbn [app] in IH. rewrite IH.
    destruct (cmap f l s1) as [r s2]. cbn [fst snd]. rewrite <- app_assoc. reflexivity.
  - specialize (IH (pre ++ [(k, Lst ts)]) s (Hpre _)). rewrite <- app_assoc in IH. cbn [app] in IH. rewrite IH.
    destruct (cmap f l s) as [r s2]. cbn [fst snd]. rewrite <- app_assoc. reflexivity.
Qed.

Lemma clean_tree_cmap f data s : NoDup (map fst data) ->
  clean_tree (S f) data s = cmap f (fst (clean_level data s)) (snd (clean_level data s)).
Proof.
  intros Hnd. rewrite clean_tree_S. pose proof (clean_level_nodup data s Hnd) as Hn.
  destruct (clean_level data s) as [d s1]. cbn [fst snd] in *.
  pose proof (fold_cstep_cmap f d [] s1 Hn) as H. cbn [app] in H. rewrite H. destruct (cmap f d s1); reflexivity.
Qed.

(* antitone in the tables *)
Lemma clean_data_sub lc bc inc lc' bc' inc' : tsub lc' lc -> tsub bc' bc -> tsub inc' inc ->
  forall t, clean_data lc bc inc t = true -> clean_data lc' bc' inc' t = true.
Proof.
  intros S1 S2 S3. induction t as [v|kvs IH|ts IH] using tree_ind'; intros H; try reflexivity.
  apply clean_data_dict in H. destruct H as [Hl Hc]. apply clean_data_dict.
  split; [exact (level_nodup_sub _ _ _ _ _ _ _ S1 S2 S3 Hl)|].
  rewrite Forall_forall in IH, Hc |- *. intros kv Hin sub E. pose proof (IH kv Hin) as IHkv. rewrite E in IHkv.
  apply IHkv. exact (Hc kv Hin sub E).
Qed.

Lemma level_ok_keys lc bc inc d d' : map fst d = map fst d' -> level_ok lc bc inc d = level_ok lc bc inc d'.
Proof. intros E. unfold level_ok. rewrite !keys_of_kind_filter, E. reflexivity. Qed.

(* ================================================================================================ *)
(* 8. the clean-up establishes the invariant                                                        *)
(* ================================================================================================ *)
Definition post (s : sdict) (d' : list (key * tree)) (s' : sdict) : Prop :=
  wf (Dict d') = true /\ tabs_nd s' /\ tabs_sub s' s /\ sd_expr s' = sd_expr s /\
  clean_data (sd_lc s') (sd_bc s') (sd_inc s') (Dict d') = true.

Lemma depth_dict_child kvs k sub : In (k, Dict sub) kvs -> (S (depth (Dict sub)) <= depth (Dict kvs))%nat.
Proof. intros Hin. pose proof (depth_child kvs (k, Dict sub) Hin) as H. cbn [snd] in H. cbn [depth] in *. lia. Qed.

Lemma cmap_spec f (IH : forall data s, (depth (Dict data) <= f)%nat -> wf (Dict data) = true -> tabs_nd s ->
                      post s (fst (clean_tree f data s)) (snd (clean_tree f data s))) :
  forall l s, (forall k sub, In (k, Dict sub) l -> (depth (Dict sub) <= f)%nat) -> Forall wfkv l -> tabs_nd s ->
    let r := fst (cmap f l s) in let s2 := snd (cmap f l s) in
    Forall wfkv r /\ tabs_nd s2 /\ tabs_sub s2 s /\ sd_expr s2 = sd_expr s /\
    Forall (child_ok (sd_lc s2) (sd_bc s2) (sd_inc s2)) r.
Proof.
  induction l as [|[k v] l IHl]; intros s Hd Hw Hn; cbv zeta.
  - cbn [cmap fst snd]. split; [constructor|]. split; [exact Hn|]. split; [apply tabs_sub_refl|]. split; [reflexivity|constructor].
  - inversion Hw as [|? ? Hwv Hwl]; subst.
    assert (Hd' : forall k0 sub, In (k0, Dict sub) l -> (depth (Dict sub) <= f)%nat) by (intros k0 sub Hin; apply (Hd k0 sub); right; exact Hin).
    cbn [cmap]. destruct v as [x|sub|ts].
    + specialize (IHl s Hd' Hwl Hn). cbv zeta in IHl. destruct (cmap f l s) as [r s2]. cbn [fst snd] in *.
      destruct IHl as (A & B & C & D & E). split; [constructor; [exact Hwv|exact A]|]. split; [exact B|]. split; [exact C|].
      split; [exact D|]. constructor; [intros sub Hs; discriminate Hs|exact E].
    + unfold wfkv in Hwv. cbn [snd] in Hwv.
      pose proof (IH sub s (Hd k sub (or_introl eq_refl)) Hwv Hn) as (P1 & P2 & P3 & P4 & P5).
      destruct (clean_tree f sub s) as [sub' s1]. cbn [fst snd] in *.
      specialize (IHl s1 Hd' Hwl P2). cbv zeta in IHl. destruct (cmap f l s1) as [r s2]. cbn [fst snd] in *.
      destruct IHl as (A & B & C & D & E). split; [constructor; [exact P1|exact A]|]. split; [exact B|].
      split; [exact (tabs_sub_trans _ _ _ C P3)|]. split; [congruence|].
      constructor; [|exact E]. intros sub0 Hs. cbn [snd] in Hs. injection Hs as <-.
      destruct C as (C1 & C2 & C3). exact (clean_data_sub _ _ _ _ _ _ C1 C2 C3 _ P5).
    + specialize (IHl s Hd' Hwl Hn). cbv zeta in IHl. destruct (cmap f l s) as [r s2]. cbn [fst snd] in *.
      destruct IHl as (A & B & C & D & E). split; [constructor; [exact Hwv|exact A]|]. split; [exact B|]. split; [exact C|].
      split; [exact D|]. constructor; [intros sub Hs; discriminate Hs|exact E].
Qed.

Lemma clean_tree_spec : forall fuel data s, (depth (Dict data) <= fuel)%nat -> wf (Dict data) = true -> tabs_nd s ->
  post s (fst (clean_tree fuel data s)) (snd (clean_tree fuel data s)).
Proof.
  induction fuel as [|f IH]; intros data s Hdp Hw Hn; [cbn [depth] in Hdp; lia|].
  pose proof (proj1 (wf_Dict_iff data) Hw) as [Hnd Hwc].
  rewrite (clean_tree_cmap f data s Hnd).
  pose proof (ParserFuelProofs.clean_level_wf data s Hw) as Hw1.
  destruct (clean_level data s) as [d s1] eqn:El. cbn [fst snd] in *.
  destruct (clean_level_spec data s d s1 Hnd Hn El) as (N1 & S1 & X1 & (dels & Ed) & L1).
  pose proof (proj1 (wf_Dict_iff d) Hw1) as [Hnd1 Hwc1].
  assert (Hd : forall k sub, In (k, Dict sub) d -> (depth (Dict sub) <= f)%nat).
  { intros k sub Hin. rewrite Ed in Hin. apply adels_incl in Hin. pose proof (depth_dict_child _ _ _ Hin). lia. }
  pose proof (cmap_spec f IH d s1 Hd Hwc1 N1) as H. cbv zeta in H. pose proof (cmap_keys f d s1) as Hk.
  destruct (cmap f d s1) as [r s2]. cbn [fst snd] in *. destruct H as (A & B & C & D & E).
  unfold post. split; [apply wf_Dict_iff; split; [rewrite Hk; exact Hnd1|exact A]|]. split; [exact B|].
  split; [exact (tabs_sub_trans _ _ _ C S1)|]. split; [congruence|].
  apply clean_data_dict. split; [|exact E]. rewrite (level_ok_keys _ _ _ r d Hk).
  destruct C as (C1 & C2 & C3). exact (level_nodup_sub _ _ _ _ _ _ _ C1 C2 C3 L1).
Qed.

Lemma sd_clean_tables s : let r := clean_tree (S (depth (Dict (sd_data s)))) (sd_data s) s in
  sd_clean s = mkSD (fst r) (sd_lc (snd r)) (sd_bc (snd r)) (sd_inc (snd r)) (sd_expr (snd r)).
Proof. cbv zeta. unfold sd_clean. destruct (clean_tree _ _ _) as [d s']. reflexivity. Qed.

Theorem sd_clean_establishes : forall s, wf (Dict (sd_data s)) = true -> tabs_ok s = true ->
  clean_state (sd_clean s) = true /\ tabs_ok (sd_clean s) = true.
Proof.
  intros s Hw Ht. apply tabs_ok_iff in Ht.
  pose proof (clean_tree_spec (S (depth (Dict (sd_data s)))) (sd_data s) s ltac:(lia) Hw Ht) as (P1 & P2 & P3 & P4 & P5).
  rewrite sd_clean_tables. cbv zeta. split.
  - unfold clean_state. cbn [sd_data sd_lc sd_bc sd_inc]. rewrite P1, P5. reflexivity.
  - apply tabs_ok_iff. exact P2.
Qed.

Theorem sd_clean_idempotent : forall s, wf (Dict (sd_data s)) = true -> tabs_ok s = true -> sd_clean (sd_clean s) = sd_clean s.
Proof. intros s Hw Ht. apply clean_state_fix. exact (proj1 (sd_clean_establishes s Hw Ht)). Qed.

(* exactly the fixed points *)
Theorem clean_state_exact : forall s, wf (Dict (sd_data s)) = true -> tabs_ok s = true -> (clean_state s = true <-> sd_clean s = s).
Proof.
  intros s Hw Ht. split; [apply clean_state_fix|]. intros E. rewrite <- E. exact (proj1 (sd_clean_establishes s Hw Ht)).
Qed.

(* the side tables only lose entries, the expressions table is untouched *)
Lemma sd_clean_tabs_sub s : wf (Dict (sd_data s)) = true -> tabs_ok s = true ->
  tabs_sub (sd_clean s) s /\ sd_expr (sd_clean s) = sd_expr s.
Proof.
  intros Hw Ht. apply tabs_ok_iff in Ht.
  pose proof (clean_tree_spec (S (depth (Dict (sd_data s)))) (sd_data s) s ltac:(lia) Hw Ht) as (P1 & P2 & P3 & P4 & P5).
  rewrite sd_clean_tables. cbv zeta. split; [exact P3|exact P4].
Qed.

(* ================================================================================================ *)
(* 9. update / merge / the parsers / the include merge end in a clean state                          *)
(* ================================================================================================ *)
From DictIO Require Import Layout Lexer TokParser Reader.
From DictIO Require Import WriteProofs IncludeNested.

(* clean, with tables whose ids are distinct *)
Definition good (s : sdict) : Prop := clean_state s = true /\ tabs_ok s = true.

Lemma good_wf s : good s -> wf (Dict (sd_data s)) = true.
Proof. intros [H _]. unfold clean_state in H. apply andb_true_iff in H. tauto. Qed.
Lemma good_clean s : wf (Dict (sd_data s)) = true -> tabs_ok s = true -> good (sd_clean s).
Proof. intros Hw Ht. exact (sd_clean_establishes s Hw Ht). Qed.
Lemma good_empty : good sd_empty.
Proof. split; reflexivity. Qed.

Section TabNoDup.
  Context {V : Type}.
  Implicit Types (tab : list (N * V)).
  Lemma tset_keys i v tab x : In x (map fst (tset i v tab)) -> x = i \/ In x (map fst tab).
  Proof.
    induction tab as [|[j w] tab IH]; cbn [tset map fst In].
    - intros [H|[]]. left. symmetry. exact H.
    - destruct (N.eqb i j) eqn:E; cbn [map fst In].
      + intros H. right. exact H.
      + intros [H|H]; [right; left; exact H|]. destruct (IH H) as [H1|H1]; [left; exact H1|right; right; exact H1].
  Qed.
  Lemma tset_nodup i v tab : NoDup (map fst tab) -> NoDup (map fst (tset i v tab)).
  Proof.
    induction tab as [|[j w] tab IH]; intros H; cbn [tset].
    - cbn [map fst]. constructor; [intros []|constructor].
    - cbn [map fst] in H. inversion H as [|? ? Hn Hd]; subst. destruct (N.eqb i j) eqn:E; cbn [map fst].
      + constructor; assumption.
      + constructor; [|exact (IH Hd)]. intros Hin. destruct (tset_keys _ _ _ _ Hin) as [->|H1]; [|contradiction].
        rewrite N.eqb_refl in E. discriminate E.
  Qed.
  Lemma tlookup_None_notin' i tab : tlookup i tab = None -> ~ In i (map fst tab).
  Proof.
    induction tab as [|[j w] tab IH]; intros H; [intros []|]. cbn [tlookup] in H. destruct (N.eqb i j) eqn:E; [discriminate H|].
    cbn [map fst]. intros [Hj|Hin]; [subst j; rewrite N.eqb_refl in E; discriminate E|exact (IH H Hin)].
  Qed.
  Lemma tupdate_nodup m : forall tab, NoDup (map fst tab) -> NoDup (map fst (tupdate tab m)).
  Proof.
    unfold tupdate. induction m as [|[i v] m IH]; intros tab H; [exact H|]. cbn [fold_left fst snd]. apply IH. apply tset_nodup. exact H.
  Qed.
  Lemma tmerge_nodup m : forall tab, NoDup (map fst tab) -> NoDup (map fst (tmerge tab m)).
  Proof.
    unfold tmerge. induction m as [|[i v] m IH]; intros tab H; [exact H|]. cbn [fold_left fst snd]. apply IH.
    destruct (tlookup i tab) eqn:E; [exact H|]. rewrite map_app. cbn [map fst]. apply NoDup_app_swap. cbn [app].
    constructor; [|exact H]. exact (tlookup_None_notin' i tab E).
  Qed.
  Lemma number_from_ge (l : list V) : forall i j, In j (map fst (number_from i l)) -> i <= j.
  Proof.
    induction l as [|x l IH]; intros i j H; [destruct H|]. cbn [number_from map fst In] in H.
    destruct H as [<-|H]; [lia|]. specialize (IH _ _ H). lia.
  Qed.
  Lemma number_from_nodup (l : list V) : forall i, NoDup (map fst (number_from i l)).
  Proof.
    induction l as [|x l IH]; intros i; [constructor|]. cbn [number_from map fst]. constructor; [|apply IH].
    intros H. apply number_from_ge in H. lia.
  Qed.
End TabNoDup.

Lemma tabs_ok_intro lc bc inc d ex : NoDup (map fst lc) -> NoDup (map fst bc) -> NoDup (map fst inc) -> tabs_ok (mkSD d lc bc inc ex) = true.
Proof. intros H1 H2 H3. apply tabs_ok_iff. repeat split; assumption. Qed.

Lemma sd_update_good s m o : wf (Dict (sd_data s)) = true -> Forall wfkv m -> tabs_ok s = true -> good (sd_update s m o).
Proof.
  intros Hw Hm Ht. apply tabs_ok_iff in Ht. destruct Ht as (T1 & T2 & T3). unfold sd_update. apply good_clean.
  - rewrite sd_data_post_update. cbn [sd_data]. apply wf_Dict_iff in Hw. destruct Hw as [Hnd Hall]. apply wf_Dict_iff.
    split; [apply aupdate_nodup; exact Hnd|apply aupdate_Forall; assumption].
  - destruct o as [o|]; cbn [post_update sd_lc sd_bc sd_inc]; apply tabs_ok_intro; try assumption; apply tupdate_nodup; assumption.
Qed.

Lemma sd_merge_good s m o : wf (Dict (sd_data s)) = true -> wf (Dict m) = true -> tabs_ok s = true -> good (sd_merge s m o).
Proof.
  intros Hw Hm Ht. apply tabs_ok_iff in Ht. destruct Ht as (T1 & T2 & T3). unfold sd_merge. cbv zeta.
  destruct o as [o|]; apply good_clean; cbn [sd_data sd_lc sd_bc sd_inc];
    try (apply merge_kvs_wf; assumption); apply tabs_ok_intro; try assumption; apply tmerge_nodup; assumption.
Qed.

(* ---- the lexer tables ---- *)
Lemma extract_line_comments_nodup com : forall ls c, NoDup (map fst (snd (extract_line_comments com c ls))).
Proof.
  induction ls as [|l ls IH]; intros c; [constructor|]. cbn [extract_line_comments].
  destruct (extract_line_comment com c l) as [[l' c1] e]. specialize (IH c1).
  destruct (extract_line_comments com c1 ls) as [[rest c2] tab]. cbn [snd] in *.
  destruct e as [x|]; [|exact IH]. apply tupdate_nodup. cbn [map]. constructor; [intros []|constructor].
Qed.
Lemma extract_includes_nodup dir : forall ls c, NoDup (map fst (snd (extract_includes dir c ls))).
Proof.
  induction ls as [|l ls IH]; intros c; [constructor|]. cbn [extract_includes].
  destruct (include_line_rest l) as [rest|].
  - specialize (IH (counter_next c)). destruct (extract_includes dir (counter_next c) ls) as [[r c2] tab]. cbn [snd] in *.
    apply tupdate_nodup. cbn [map]. constructor; [intros []|constructor].
  - specialize (IH c). destruct (extract_includes dir c ls) as [[r c2] tab]. exact IH.
Qed.
Lemma lex_tabs_nodup com dir count text : let lx := lex com dir count text in
  NoDup (map fst (lxd_lc lx)) /\ NoDup (map fst (lxd_bc lx)) /\ NoDup (map fst (lxd_inc lx)).
Proof.
  cbv zeta. unfold lex.
  pose proof (extract_line_comments_nodup com (splitlines text) count) as H1.
  destruct (extract_line_comments com count (splitlines text)) as [[l1 c1] lc]. cbn [snd] in H1.
  pose proof (extract_includes_nodup dir l1 c1) as H2.
  destruct (extract_includes dir c1 l1) as [[l2 c2] inc]. cbn [snd] in H2.
  destruct (extract_block_comments com (concat l2)) as [b1 bc] eqn:Eb.
  assert (H3 : NoDup (map fst bc)).
  { unfold extract_block_comments in Eb. injection Eb as _ <-. apply number_from_nodup. }
  destruct (extract_string_literals c2 (remove_line_endings b1)) as [[b3 c3] lit].
  destruct (extract_expressions c3 b3) as [[b4 c4] ex]. cbn [lxd_lc lxd_bc lxd_inc]. auto.
Qed.

Theorem parse_string_good : forall com dir c text p, parse_string com dir c text = Ok p -> good (pr_sd p).
Proof.
  intros com dir c text p H. unfold parse_string in H. cbv zeta in H.
  dbind H d0 E0. dbind H d1 E1. injection H as H. subst p. cbn [pr_sd].
  destruct (lex_tabs_nodup com dir c text) as (L1 & L2 & L3). cbv zeta in L1, L2, L3.
  pose proof (parse_tokens_wf _ _ E0) as W0.
  destruct (good_clean (mkSD d0 (lxd_lc (lex com dir c text)) (lxd_bc (lex com dir c text)) (lxd_inc (lex com dir c text))
                             (lxd_expr (lex com dir c text))) W0 (tabs_ok_intro _ _ _ _ _ L1 L2 L3)) as [G1 G2].
  set (s0 := sd_clean _) in *.
  apply good_clean.
  - cbn [sd_data]. unfold parser_clean. apply adel_wf. apply adel_wf. apply (insert_string_literals_wf _ _ _ E1).
    unfold clean_state in G1. apply andb_true_iff in G1. tauto.
  - apply tabs_ok_iff in G2. destruct G2 as (A & B & C). apply tabs_ok_intro; assumption.
Qed.

Lemma json_includes_nodup dir : forall kvs c, NoDup (map fst (snd (json_includes dir c kvs))).
Proof.
  induction kvs as [|[k v] kvs IH]; intros c; [constructor|]. cbn [json_includes].
  destruct (is_include_key_json k).
  - cbv zeta. specialize (IH (counter_next c)). destruct (json_includes dir (counter_next c) kvs) as [[[phs rest] c2] tab]. cbn [snd] in *.
    apply tupdate_nodup. cbn [map]. constructor; [intros []|constructor].
  - specialize (IH c). destruct (json_includes dir c kvs) as [[[phs rest] c2] tab]. exact IH.
Qed.

Theorem json_parse_good : forall dir c t, wf (Dict t) = true -> good (pr_sd (json_parse dir c t)).
Proof.
  intros dir c t Hw. unfold json_parse.
  assert (G0 : good (sd_update sd_empty t None)).
  { apply sd_update_good; [reflexivity| |reflexivity]. apply wf_Dict_iff in Hw. tauto. }
  pose proof (good_wf _ G0) as W0. destruct G0 as [_ T0]. apply tabs_ok_iff in T0. destruct T0 as (A0 & B0 & _).
  assert (H0' : Forall wfkv (sd_data (sd_update sd_empty t None))) by (apply wf_Dict_iff in W0; tauto).
  pose proof (json_includes_Forall dir (sd_data (sd_update sd_empty t None)) c H0') as [Hphs Hrest].
  pose proof (json_includes_nodup dir (sd_data (sd_update sd_empty t None)) c) as Hinc.
  destruct (json_includes dir c (sd_data (sd_update sd_empty t None))) as [[[phs rest] c1] inc]. cbn [fst snd] in *.
  match goal with
  | |- context [json_expressions (Dict (sd_data ?s2)) c1 []] =>
      assert (G2 : good s2);
      [apply sd_update_good; [apply good_wf; apply sd_update_good; [reflexivity|exact Hphs|apply tabs_ok_intro; assumption]
                             |exact Hrest
                             |apply (sd_update_good _ phs None); [reflexivity|exact Hphs|apply tabs_ok_intro; assumption]]|];
      remember s2 as s2' eqn:Es2
  end.
  pose proof (json_expressions_wf (Dict (sd_data s2')) c1 [] (good_wf _ G2)) as He.
  rewrite SemProofs.json_expressions_dict in He |- *.
  destruct (SemProofs.je_kvs (sd_data s2') c1 []) as [[kvs' c2] tb]. cbn [fst] in He. cbn [pr_sd].
  apply good_clean; [cbn [sd_data kvs_of_tree]; exact He|].
  destruct G2 as [_ T2]. apply tabs_ok_iff in T2. destruct T2 as (A & B & C). apply tabs_ok_intro; assumption.
Qed.

Theorem parse_unit_good : forall com path c u pr, unit_wf u = true -> parse_unit com path c u = Ok pr -> good (pr_sd pr).
Proof.
  intros com path c u pr Hu H. destruct u as [text|t]; cbn [parse_unit] in H.
  - exact (parse_string_good _ _ _ _ _ H).
  - inversion H; subst. apply json_parse_good. exact Hu.
Qed.

Lemma merge_includes_rec_good : forall fuel fs com chain parent count s c, fs_wf fs = true ->
  merge_includes_rec fuel fs com chain parent count = Ok (s, c) -> good parent -> good s.
Proof.
  induction fuel as [|f IH]; intros fs com chain parent count s c Hn H Hp; [discriminate H|].
  cbn [merge_includes_rec] in H.
  dbind H tc Efold. destruct tc as [temp c0]. injection H as H _. subst s.
  assert (Ht : good (fst (temp, c0))).
  { refine (fold_res_inv (fun tc : sdict * Z => good (fst tc)) _ _ _ _ _ Efold _).
    - intros acc e a' HF Hacc. destruct acc as [[t0 c1]|er]; cbn [bind] in HF; [|discriminate HF].
      pose proof (Hacc (t0, c1) eq_refl) as Ht0. cbn [fst] in Ht0.
      destruct e as [i [[dv nm] path]].
      destruct (in_chain (norm_path path) chain); [injection HF as HF; subst a'; exact Ht0|].
      destruct (fs_lookup (norm_path path) fs) as [u|] eqn:Eu; [|injection HF as HF; subst a'; exact Ht0].
      pose proof (fs_lookup_wf fs _ u Hn Eu) as Hu.
      dbind HF pr Epr. pose proof (parse_unit_good _ _ _ _ _ Hu Epr) as Hpr.
      dbind HF ic Eic. destruct ic as [inc' c']. injection HF as HF. subst a'. cbn [fst].
      assert (Hinc' : good inc').
      { destruct (sd_inc (pr_sd pr)).
        - injection Eic as Eic _. subst inc'. exact Hpr.
        - exact (IH _ _ _ _ _ _ _ Hn Eic Hpr). }
      destruct (sd_inc (pr_sd pr)).
      + apply sd_merge_good; [exact (good_wf _ Ht0)|exact (good_wf _ Hinc')|exact (proj2 Ht0)].
      + pose proof (sd_merge_good t0 (sd_data inc') (Some inc') (good_wf _ Ht0) (good_wf _ Hinc') (proj2 Ht0)) as G1.
        apply sd_merge_good; [exact (good_wf _ G1)|exact (good_wf _ Hinc')|exact (proj2 G1)].
    - intros a Ha. injection Ha as Ha. subst a. exact good_empty. }
  cbn [fst] in Ht. apply sd_merge_good; [exact (good_wf _ Hp)|exact (good_wf _ Ht)|exact (proj2 Hp)].
Qed.

Theorem merge_includes_good : forall fs com parent count s c, fs_wf fs = true ->
  merge_includes fs com parent count = Ok (s, c) -> good parent -> good s.
Proof.
  intros fs com parent count s c Hn H Hp. unfold merge_includes in H. dbind H pc Erec. destruct pc as [p1 c1].
  injection H as H _. subst s. pose proof (merge_includes_rec_good _ _ _ _ _ _ _ _ Hn Erec Hp) as G.
  apply sd_merge_good; [exact (good_wf _ G)|exact (good_wf _ G)|exact (proj2 G)].
Qed.

(* ================================================================================================ *)
(* 10. the later stages of a read keep the invariant: table changes that keep every lookup, dropping  *)
(*     top-level entries, ordering                                                                   *)
(* ================================================================================================ *)
From DictIO Require Import Expr Eval Cli Parse.
From DictIO Require OrderProofs OrderFile WorkflowProofs.

Lemma clean_data_alt lc bc inc kvs :
  clean_data lc bc inc (Dict kvs) = true <->
  level_ok lc bc inc kvs = true /\ Forall (fun kv => clean_data lc bc inc (snd kv) = true) kvs.
Proof.
  rewrite clean_data_dict. split; intros [H1 H2]; (split; [exact H1|]); rewrite Forall_forall in H2 |- *; intros [k c] Hin.
  - cbn [snd]. destruct c as [x|sub|ts]; try reflexivity. exact (H2 _ Hin sub eq_refl).
  - intros sub E. cbn [snd] in E. subst c. exact (H2 _ Hin).
Qed.

(* tables with the same lookups *)
Lemma clean_data_tabs_eq lc bc inc lc' bc' inc' t :
  (forall i, tlookup i lc' = tlookup i lc) -> (forall i, tlookup i bc' = tlookup i bc) -> (forall i, tlookup i inc' = tlookup i inc) ->
  clean_data lc' bc' inc' t = clean_data lc bc inc t.
Proof.
  intros H1 H2 H3.
  assert (A : clean_data lc bc inc t = true -> clean_data lc' bc' inc' t = true).
  { apply clean_data_sub; intros i v H; [rewrite <- H1|rewrite <- H2|rewrite <- H3]; exact H. }
  assert (B : clean_data lc' bc' inc' t = true -> clean_data lc bc inc t = true).
  { apply clean_data_sub; intros i v H; [rewrite H1|rewrite H2|rewrite H3]; exact H. }
  destruct (clean_data lc bc inc t), (clean_data lc' bc' inc' t); try reflexivity; [apply A; reflexivity|symmetry; apply B; reflexivity].
Qed.

Lemma clean_data_tsort lc bc inc t : clean_data (tsort lc) (tsort bc) (tsort inc) t = clean_data lc bc inc t.
Proof. apply clean_data_tabs_eq; intros i; apply OrderFile.tlookup_tsort. Qed.

(* one level: only the set of keys matters *)
Lemma Permutation_filter_loc {A} (p : A -> bool) (a b : list A) : Permutation a b -> Permutation (filter p a) (filter p b).
Proof.
  induction 1 as [|x a b _ IH|x y a|a b c _ IH1 _ IH2]; cbn [filter].
  - constructor.
  - destruct (p x); [constructor|]; exact IH.
  - destruct (p x), (p y); try apply Permutation_refl. constructor.
  - exact (perm_trans IH1 IH2).
Qed.
Lemma kvals_perm {V} (tab : list (N * V)) a b : Permutation a b -> Permutation (kvals a tab) (kvals b tab).
Proof. intros H. unfold kvals, RereadNum.kvals. apply Permutation_flat_map. exact H. Qed.
Lemma level_ok_perm lc bc inc d d' : Permutation (map fst d) (map fst d') -> level_ok lc bc inc d = true -> level_ok lc bc inc d' = true.
Proof.
  intros P H. apply level_ok_iff in H. destruct H as (H1 & H2 & H3). apply level_ok_iff. rewrite !keys_of_kind_filter in *.
  repeat split; (eapply Permutation_NoDup; [apply kvals_perm; apply Permutation_filter_loc; exact P|assumption]).
Qed.

Lemma clean_data_order lc bc inc : forall t, clean_data lc bc inc (order_child t) = clean_data lc bc inc t.
Proof.
  intros t. rewrite OrderProofs.order_child_eq.
  assert (H : clean_data lc bc inc (order_tree t) = true <-> clean_data lc bc inc t = true).
  { induction t as [v|kvs IH|ts IH] using tree_ind'; try reflexivity.
    rewrite OrderProofs.order_tree_dict, !clean_data_alt.
    pose proof (OrderProofs.sort_kvs_perm (OrderProofs.map_snd order_tree kvs)) as P.
    assert (Pk : Permutation (map fst (sort_kvs (OrderProofs.map_snd order_tree kvs))) (map fst kvs)).
    { rewrite <- (OrderProofs.map_snd_fst order_tree kvs). apply Permutation_map. exact P. }
    assert (F : Forall (fun kv => clean_data lc bc inc (snd kv) = true) (OrderProofs.map_snd order_tree kvs) <->
                Forall (fun kv => clean_data lc bc inc (snd kv) = true) kvs).
    { unfold OrderProofs.map_snd. rewrite Forall_map. rewrite !Forall_forall. rewrite Forall_forall in IH.
      split; intros H kv Hin; specialize (H kv Hin); cbn [snd] in *; apply (IH kv Hin); exact H. }
    split; intros [H1 H2]; split.
    - exact (level_ok_perm _ _ _ _ _ Pk H1).
    - apply F. rewrite Forall_forall in H2 |- *. intros kv Hin. apply H2. exact (Permutation_in _ (Permutation_sym P) Hin).
    - exact (level_ok_perm _ _ _ _ _ (Permutation_sym Pk) H1).
    - apply F in H2. rewrite Forall_forall in H2 |- *. intros kv Hin. apply H2. exact (Permutation_in _ P Hin). }
  destruct (clean_data lc bc inc (order_tree t)), (clean_data lc bc inc t); try reflexivity; [symmetry; apply H; reflexivity|apply H; reflexivity].
Qed.

Lemma clean_state_order s : clean_state (sd_order s) = clean_state s.
Proof.
  unfold clean_state. destruct (OrderFile.sd_order_spec s) as (E1 & E2 & E3 & E4 & _).
  rewrite E1, E2, E3, E4, OrderFile.order_wf, clean_data_tsort. f_equal.
  rewrite <- OrderProofs.order_child_eq. apply clean_data_order.
Qed.
Lemma tabs_ok_order s : tabs_ok (sd_order s) = true <-> tabs_ok s = true.
Proof.
  rewrite !tabs_ok_iff. unfold tabs_nd. destruct (OrderFile.sd_order_spec s) as (_ & E2 & E3 & E4 & _). rewrite E2, E3, E4.
  assert (P : forall V (l : list (N * V)), NoDup (map fst (tsort l)) <-> NoDup (map fst l)).
  { intros V l. split; apply Permutation_NoDup; [|apply Permutation_sym]; apply Permutation_map; apply OrderFile.tsort_perm. }
  rewrite !P. reflexivity.
Qed.

(* dropping entries of the top level *)
Lemma kvals_filter_incl {V} (p : key -> bool) (tab : list (N * V)) : forall keys v, In v (kvals (filter p keys) tab) -> In v (kvals keys tab).
Proof.
  induction keys as [|k keys IH]; intros v H; [exact H|]. cbn [filter] in H. rewrite kvals_cons. apply in_or_app.
  destruct (p k); [rewrite kvals_cons in H; apply in_app_or in H; destruct H as [H|H]; [left; exact H|right; exact (IH _ H)]|right; exact (IH _ H)].
Qed.
Lemma kvals_filter_nodup {V} (p : key -> bool) (tab : list (N * V)) : forall keys, NoDup (kvals keys tab) -> NoDup (kvals (filter p keys) tab).
Proof.
  induction keys as [|k keys IH]; intros H; [exact H|]. rewrite kvals_cons in H. cbn [filter].
  destruct (p k); [|exact (IH (NoDup_app_tail _ _ H))]. rewrite kvals_cons.
  destruct (kvals_one_cases k tab) as [[E _]|(i & w & _ & _ & E)]; rewrite E in *; cbn [app] in *.
  - exact (IH H).
  - inversion H as [|? ? Hn Hd]; subst. constructor; [|exact (IH Hd)]. intros Hin. apply Hn. exact (kvals_filter_incl p tab keys w Hin).
Qed.
Lemma map_fst_filter_keys (p : key -> bool) (d : list (key * tree)) : map fst (filter (fun kv => p (fst kv)) d) = filter p (map fst d).
Proof. induction d as [|[k v] d IH]; [reflexivity|]. cbn [filter map fst]. destruct (p k); cbn [map fst]; rewrite IH; reflexivity. Qed.

Lemma clean_state_filter_top (p : key -> bool) d lc bc inc ex ex' :
  clean_state (mkSD d lc bc inc ex) = true -> clean_state (mkSD (filter (fun kv => p (fst kv)) d) lc bc inc ex') = true.
Proof.
  unfold clean_state. cbn [sd_data sd_lc sd_bc sd_inc]. rewrite !andb_true_iff. intros [Hw Hc]. split.
  - apply wf_Dict_iff in Hw. destruct Hw as [Hnd Hall]. apply wf_Dict_iff. split.
    + rewrite map_fst_filter_keys. apply NoDup_filter. exact Hnd.
    + apply Forall_forall. intros x Hx. apply filter_In in Hx. rewrite Forall_forall in Hall. apply Hall. tauto.
  - apply clean_data_alt in Hc. destruct Hc as [Hl Hc]. apply clean_data_alt. split.
    + apply level_ok_iff in Hl. destruct Hl as (H1 & H2 & H3). apply level_ok_iff. rewrite !keys_of_kind_filter in *.
      rewrite map_fst_filter_keys, !filter_filter.
      rewrite !(filter_ext (fun x => p x && is_kind _ x) (fun x => is_kind _ x && p x)) by (intros x; apply andb_comm).
      rewrite <- !filter_filter. repeat split; apply kvals_filter_nodup; assumption.
    + apply Forall_forall. intros x Hx. apply filter_In in Hx. rewrite Forall_forall in Hc. apply Hc. tauto.
Qed.

Theorem read_plain_good : forall fs root inc com count s c, fs_wf fs = true ->
  read_plain fs root inc com count = Ok (s, c) -> good s.
Proof.
  intros fs root inc com count s c Hn H. unfold read_plain in H.
  destruct (fs_lookup (norm_path root) fs) as [u|] eqn:Eu; [|discriminate H].
  pose proof (fs_lookup_wf fs _ u Hn Eu) as Hu.
  dbind H pr Epr. pose proof (parse_unit_good _ _ _ _ _ Hu Epr) as Hpr.
  dbind H sc Esc. destruct sc as [s0 c0]. injection H as H _. subst s.
  assert (Hs0 : good s0).
  { destruct inc.
    - exact (merge_includes_good _ _ _ _ _ _ Hn Esc Hpr).
    - injection Esc as Esc _. subst s0. exact Hpr. }
  destruct Hs0 as [G1 G2]. destruct s0 as [d lc bc i ex]. cbn [sd_data sd_lc sd_bc sd_inc] in *.
  destruct inc; (split; [|exact G2]).
  - exact G1.
  - exact (clean_state_filter_top WorkflowProofs.key_unmarked d lc bc i ex [] G1).
Qed.

(* ================================================================================================ *)
(* 11. C14: the scope of a read whose unscoped result is clean                                       *)
(* ================================================================================================ *)
Import KeyPathProofs WorkflowProofs.

(* the scope reduction of a state whose sub-dict at the path is clean w.r.t. the tables of the state *)
Lemma scope_sd_clean : forall s1 sk sub1, sk <> [] -> get_dpath (Dict (sd_data s1)) sk = Some (Dict sub1) ->
  wf (Dict sub1) = true -> clean_data (sd_lc s1) (sd_bc s1) (sd_inc s1) (Dict sub1) = true ->
  scope_sd s1 sk = mkSD sub1 (sd_lc s1) (sd_bc s1) (sd_inc s1) (sd_expr s1).
Proof.
  intros s1 sk sub1 Hne Hp Hw Hc. unfold scope_sd, sd_update. cbn [post_update sd_data sd_lc sd_bc sd_inc sd_expr].
  assert (Hr : reduce_scope (sd_data s1) sk = sub1).
  { unfold reduce_scope. destruct sk as [|k0 sk]; [congruence|]. rewrite dict_at_dpath, Hp.
    apply (aupdate_app sub1 []). cbn [app]. apply wf_dict_nodup. exact Hw. }
  rewrite Hr. rewrite (aupdate_app sub1 []) by (cbn [app]; apply wf_dict_nodup; exact Hw). cbn [app].
  apply clean_data_fix; assumption.
Qed.

(* hereditary: every sub-dict of a clean state, with the tables of the state, is a clean state *)
Theorem clean_state_sub : forall s p sub, clean_state s = true -> get_dpath (Dict (sd_data s)) p = Some (Dict sub) ->
  clean_state (mkSD sub (sd_lc s) (sd_bc s) (sd_inc s) (sd_expr s)) = true.
Proof.
  intros s p sub H Hp. unfold clean_state in *. apply andb_true_iff in H. destruct H as [Hw Hc]. cbn [sd_data sd_lc sd_bc sd_inc].
  rewrite (wf_dpath p _ _ Hw Hp), (clean_data_dpath _ _ _ p _ _ Hc Hp). reflexivity.
Qed.

(* so SDict.update of the emptied state with any of its sub-dicts is that sub-dict, tables kept *)
Theorem clean_state_update_sub : forall s p sub, clean_state s = true -> get_dpath (Dict (sd_data s)) p = Some (Dict sub) ->
  sd_update (mkSD [] (sd_lc s) (sd_bc s) (sd_inc s) (sd_expr s)) sub None = mkSD sub (sd_lc s) (sd_bc s) (sd_inc s) (sd_expr s).
Proof.
  intros s p sub H Hp. pose proof (clean_state_sub s p sub H Hp) as Hs. unfold sd_update. cbn [post_update sd_data sd_lc sd_bc sd_inc sd_expr].
  assert (Hw : wf (Dict sub) = true) by (unfold clean_state in Hs; apply andb_true_iff in Hs; exact (proj1 Hs)).
  rewrite (aupdate_app sub []) by (cbn [app]; apply wf_dict_nodup; exact Hw). cbn [app]. apply clean_state_fix. exact Hs.
Qed.

Lemma finish_clean_inv inc order s1 k0 p sub : (inc = false -> key_unmarked k0 = true) ->
  clean_state (finish inc order s1) = true ->
  get_dpath (Dict (sd_data (finish inc order s1))) (k0 :: p) = Some (Dict sub) ->
  exists sub1, get_dpath (Dict (sd_data s1)) (k0 :: p) = Some (Dict sub1) /\ ord order (Dict sub1) = Dict sub /\
    wf (Dict sub1) = true /\ clean_data (sd_lc s1) (sd_bc s1) (sd_inc s1) (Dict sub1) = true.
Proof.
  intros Hk Hc Hp. pose proof (clean_state_sub _ _ _ Hc Hp) as Hs.
  rewrite (finish_dpath inc order s1 k0 p Hk) in Hp.
  destruct (get_dpath (Dict (sd_data s1)) (k0 :: p)) as [t|] eqn:Ep; [|discriminate Hp]. cbn [option_map] in Hp. injection Hp as Eo.
  destruct (ord_dict_inv _ _ _ Eo) as [sub1 ->]. exists sub1. split; [reflexivity|]. split; [exact Eo|].
  unfold clean_state in Hs. cbn [sd_data sd_lc sd_bc sd_inc] in Hs. apply andb_true_iff in Hs. destruct Hs as [Hw Hd].
  assert (T : clean_data (sd_lc (finish inc order s1)) (sd_bc (finish inc order s1)) (sd_inc (finish inc order s1)) (Dict sub)
              = clean_data (sd_lc s1) (sd_bc s1) (sd_inc s1) (Dict sub)).
  { unfold finish. destruct (OrderFile.sd_order_spec s1) as (_ & E2 & E3 & E4 & _).
    destruct inc, order; cbn [sd_lc sd_bc sd_inc]; rewrite ?E2, ?E3, ?E4, ?clean_data_tsort; reflexivity. }
  rewrite T in Hd. destruct order; cbn [ord] in Eo.
  - rewrite <- Eo in Hw, Hd. split; [apply wf_order_inv; exact Hw|].
    rewrite <- OrderProofs.order_child_eq, clean_data_order in Hd. exact Hd.
  - injection Eo as ->. split; assumption.
Qed.

Theorem scope_read_option_clean : forall fs root inc order com scope k0 sk c s k,
  read_opts fs root inc order com [] c = Some (Ok (s, k)) -> scope_keys scope = Some (k0 :: sk) ->
  (inc = false -> key_unmarked k0 = true) ->
  clean_state s = true ->
  match get_dpath (Dict (sd_data s)) (k0 :: sk) with
  | Some (Dict sub) =>
      read_opts fs root inc order com scope c =
        Some (Ok (mkSD (if inc then sub else remove_include_keys sub) (sd_lc s) (sd_bc s) (sd_inc s) (sd_expr s), k))
  | _ => read_opts fs root inc order com scope c = Some (Raise E_Exit)
  end.
Proof.
  intros fs root inc order com scope k0 sk c s k H Hsk Hk Hcl.
  destruct (read_opts_scope_stages _ _ _ _ _ _ _ _ _ _ Hsk H) as (s1 & _ & Es & ->). subst s.
  destruct (get_dpath (Dict (sd_data (finish inc order s1))) (k0 :: sk)) as [[v|sub|ts]|] eqn:Ep.
  - rewrite (finish_dpath inc order s1 k0 sk Hk) in Ep.
    assert (Hx : key_exists (Dict (sd_data s1)) (k0 :: sk) = false).
    { destruct (key_exists (Dict (sd_data s1)) (k0 :: sk)) eqn:E; [|reflexivity].
      apply key_exists_iff in E. destruct E as [x E]. rewrite E in Ep. cbn [option_map] in Ep. injection Ep as Ep.
      destruct order; cbn [ord] in Ep; [rewrite OrderProofs.order_tree_dict in Ep|]; discriminate Ep. }
    unfold scope_stage. rewrite Hx. reflexivity.
  - destruct (finish_clean_inv inc order s1 k0 sk sub Hk Hcl Ep) as (sub1 & Ep1 & Eo & Hw1 & Hc1).
    assert (Hx : key_exists (Dict (sd_data s1)) (k0 :: sk) = true) by (apply key_exists_iff; eauto).
    unfold scope_stage. rewrite Hx.
    rewrite (scope_sd_clean s1 (k0 :: sk) sub1 ltac:(discriminate) Ep1 Hw1 Hc1).
    f_equal. f_equal. f_equal.
    destruct (finish_tables inc order sub1 _ _ _ _ s1 eq_refl eq_refl eq_refl eq_refl) as (T1 & T2 & T3 & T4).
    cbv zeta in T1, T2, T3, T4.
    rewrite (sdict_eta (finish inc order (mkSD sub1 (sd_lc s1) (sd_bc s1) (sd_inc s1) (sd_expr s1)))).
    rewrite T1, T2, T3, T4, finish_data. cbv zeta. rewrite Eo. reflexivity.
  - rewrite (finish_dpath inc order s1 k0 sk Hk) in Ep.
    assert (Hx : key_exists (Dict (sd_data s1)) (k0 :: sk) = false).
    { destruct (key_exists (Dict (sd_data s1)) (k0 :: sk)) eqn:E; [|reflexivity].
      apply key_exists_iff in E. destruct E as [x E]. rewrite E in Ep. cbn [option_map] in Ep. injection Ep as Ep.
      destruct order; cbn [ord] in Ep; [rewrite OrderProofs.order_tree_dict in Ep|]; discriminate Ep. }
    unfold scope_stage. rewrite Hx. reflexivity.
  - rewrite (finish_dpath inc order s1 k0 sk Hk) in Ep.
    assert (Hx : key_exists (Dict (sd_data s1)) (k0 :: sk) = false).
    { destruct (key_exists (Dict (sd_data s1)) (k0 :: sk)) eqn:E; [|reflexivity].
      apply key_exists_iff in E. destruct E as [x E]. rewrite E in Ep. discriminate Ep. }
    unfold scope_stage. rewrite Hx. reflexivity.
Qed.

(* ================================================================================================ *)
(* 12. DictReader.read with all options                                                              *)
(* ================================================================================================ *)
(* parse + include merge: the state the expression evaluation starts from *)
Definition read_merged (fs : fsys) (root : str) (includes comments : bool) (count : Z) : res (sdict * Z) :=
  match fs_lookup (norm_path root) fs with
  | None => Raise E_Key
  | Some u =>
      bind (parse_unit comments root count u) (fun pr =>
        if includes then merge_includes fs comments (pr_sd pr) (pr_count pr) else Ok (pr_sd pr, pr_count pr))
  end.

Lemma read_core_merged fs root inc com c :
  read_core fs root inc com c =
  match read_merged fs root inc com c with
  | Raise e => Some (Raise e)
  | Ok (s, k) => match eval_expressions s with
                 | None => None
                 | Some (Raise e) => Some (Raise e)
                 | Some (Ok s1) => Some (Ok (s1, k))
                 end
  end.
Proof.
  unfold read_core, read_merged. destruct (fs_lookup (norm_path root) fs) as [u|]; [|reflexivity].
  destruct (parse_unit com root c u) as [pr|e]; cbn [bind]; [|reflexivity].
  destruct (if inc then merge_includes fs com (pr_sd pr) (pr_count pr) else Ok (pr_sd pr, pr_count pr)) as [[s k]|e]; reflexivity.
Qed.

Theorem read_merged_good : forall fs root inc com c s k, fs_wf fs = true -> read_merged fs root inc com c = Ok (s, k) -> good s.
Proof.
  intros fs root inc com c s k Hn H. unfold read_merged in H.
  destruct (fs_lookup (norm_path root) fs) as [u|] eqn:Eu; [|discriminate H].
  pose proof (fs_lookup_wf fs _ u Hn Eu) as Hu. dbind H pr Epr. pose proof (parse_unit_good _ _ _ _ _ Hu Epr) as Hpr.
  destruct inc; [exact (merge_includes_good _ _ _ _ _ _ Hn H Hpr)|]. injection H as <- _. exact Hpr.
Qed.

Lemma good_tables_only d lc bc inc ex ex' : good (mkSD d lc bc inc ex) -> good (mkSD d lc bc inc ex').
Proof. intros H. exact H. Qed.

Lemma scope_stage_good sk s1 s2 : good s1 -> scope_stage sk s1 = Ok s2 -> good s2.
Proof.
  intros G H. unfold scope_stage in H. destruct sk as [|k0 sk]; [injection H as <-; exact G|].
  destruct (key_exists (Dict (sd_data s1)) (k0 :: sk)); [|discriminate H]. injection H as <-.
  pose proof (good_wf _ G) as Hw. unfold scope_sd. apply sd_update_good; [reflexivity| |exact (proj2 G)].
  rewrite (reduce_scope_spec _ (k0 :: sk) Hw ltac:(discriminate)).
  destruct (get_dpath (Dict (sd_data s1)) (k0 :: sk)) as [[v|sub|ts]|] eqn:E; try (apply wf_Dict_iff in Hw; exact (proj2 Hw)).
  pose proof (wf_dpath _ _ _ Hw E) as Hs. apply wf_Dict_iff in Hs. exact (proj2 Hs).
Qed.

Lemma finish_good inc order s : good s -> good (finish inc order s).
Proof.
  intros G. unfold finish.
  assert (G3 : good (if order then sd_order s else s)).
  { destruct order; [|exact G]. destruct G as [G1 G2]. split; [rewrite clean_state_order; exact G1|apply tabs_ok_order; exact G2]. }
  destruct inc; [exact G3|]. destruct (if order then sd_order s else s) as [d lc bc i ex]. cbn [sd_data sd_lc sd_bc sd_inc sd_expr].
  destruct G3 as [G1 G2]. split; [|exact G2]. exact (clean_state_filter_top key_unmarked d lc bc i ex ex G1).
Qed.

(* whatever the scope and the flags: the read result is clean when the state after expression evaluation is *)
Theorem read_opts_good_gen : forall fs root inc order com scope c s k, fs_wf fs = true ->
  read_opts fs root inc order com scope c = Some (Ok (s, k)) ->
  (forall sm km s1, read_merged fs root inc com c = Ok (sm, km) -> good sm -> eval_expressions sm = Some (Ok s1) -> good s1) ->
  good s.
Proof.
  intros fs root inc order com scope c s k Hn H Hev. rewrite read_opts_stages in H.
  destruct (scope_keys scope) as [sk|]; [|discriminate H]. rewrite read_core_merged in H.
  destruct (read_merged fs root inc com c) as [[sm km]|e] eqn:Em; [|discriminate H].
  pose proof (read_merged_good _ _ _ _ _ _ _ Hn Em) as Gm.
  destruct (eval_expressions sm) as [[s1|e]|] eqn:Ee; [|discriminate H|discriminate H].
  pose proof (Hev sm km s1 eq_refl Gm Ee) as G1.
  destruct (scope_stage sk s1) as [s2|e] eqn:Es; [|discriminate H]. injection H as <- <-.
  apply finish_good. exact (scope_stage_good _ _ _ G1 Es).
Qed.

(* no expression entry: the evaluation only empties the expressions table *)
Lemma eval_expressions_none s : sd_expr s = [] ->
  eval_expressions s = Some (Ok (mkSD (sd_data s) (sd_lc s) (sd_bc s) (sd_inc s) [])).
Proof.
  intros E.
  assert (R : resolve_all s = Some ([], 0%nat)) by (unfold resolve_all; rewrite E; reflexivity).
  assert (P : forall r, eval_pass r s = Some (Ok s)) by (intros r; unfold eval_pass; rewrite E; reflexivity).
  unfold eval_expressions. rewrite R. cbn [eval_loop]. rewrite P, R. cbn [Nat.ltb Nat.leb]. unfold back_insert. rewrite E. reflexivity.
Qed.

Theorem read_opts_good_noexpr : forall fs root inc order com scope c s k, fs_wf fs = true ->
  read_opts fs root inc order com scope c = Some (Ok (s, k)) ->
  (forall sm km, read_merged fs root inc com c = Ok (sm, km) -> sd_expr sm = []) ->
  good s.
Proof.
  intros fs root inc order com scope c s k Hn H Hx. apply (read_opts_good_gen _ _ _ _ _ _ _ _ _ Hn H).
  intros sm km s1 Em Gm Ee. rewrite (eval_expressions_none sm (Hx sm km Em)) in Ee. injection Ee as <-.
  destruct sm; exact Gm.
Qed.

Print Assumptions clean_state_fix.
Print Assumptions sd_clean_establishes.
Print Assumptions sd_clean_idempotent.
Print Assumptions parse_string_good.
Print Assumptions read_plain_good.
Print Assumptions read_opts_good_gen.
Print Assumptions read_opts_good_noexpr.
Print Assumptions scope_read_option_clean.
