(* C01 layer (a): the token-level parser inverts the token grammar. *)
From Coq Require Import NArith ZArith List Bool Lia ZifyBool ZifyNat ZifyN.
From DictIO Require Import Chars Str Value Scalar KeyPath SDict Layout Lexer TokParser TreeSpec NativeSpec.
Import ListNotations.
Local Open Scope Z_scope.

(* ---- strings ------------------------------------------------------------------------------------ *)
Lemma str_eqb_refl : forall s, str_eqb s s = true.
Proof.
  induction s as [|c s IH]; [reflexivity|].
  cbn [str_eqb]. rewrite N.eqb_refl, IH. reflexivity.
Qed.

Lemma str_eqb_eq : forall a b, str_eqb a b = true -> a = b.
Proof.
  induction a as [|x a IH]; intros [|y b] H; cbn [str_eqb] in H; try discriminate; [reflexivity|].
  apply andb_true_iff in H. destruct H as [H1 H2].
  apply N.eqb_eq in H1. apply IH in H2. subst. reflexivity.
Qed.

Lemma str_eqb_sym : forall a b, str_eqb a b = str_eqb b a.
Proof.
  induction a as [|x a IH]; intros [|y b]; cbn [str_eqb]; try reflexivity.
  rewrite N.eqb_sym, IH. reflexivity.
Qed.

Lemma key_eqb_sym : forall a b, key_eqb a b = key_eqb b a.
Proof.
  intros [x|x] [y|y]; cbn [key_eqb]; try reflexivity.
  - apply Z.eqb_sym.
  - apply str_eqb_sym.
Qed.

(* ---- Python indexing ---------------------------------------------------------------------------- *)
Lemma py_nth_split {A} (l a : list A) x b i :
  l = a ++ x :: b -> i = Z.of_nat (length a) -> py_nth l i = Some x.
Proof.
  intros -> ->. unfold py_nth.
  rewrite app_length. cbn [length].
  destruct (0 <=? Z.of_nat (length a)) eqn:E1; [|lia].
  destruct (Z.of_nat (length a) <? Z.of_nat (length a + S (length b))) eqn:E2; [|lia].
  rewrite Nat2Z.id. rewrite nth_error_app2 by lia. rewrite Nat.sub_diag. reflexivity.
Qed.

Lemma py_nth_off {A} (pre mid : list A) x post i :
  i = Z.of_nat (length pre + length mid) -> py_nth (pre ++ mid ++ x :: post) i = Some x.
Proof.
  intros Hi. apply py_nth_split with (a := pre ++ mid) (b := post).
  - rewrite <- app_assoc. reflexivity.
  - rewrite app_length. exact Hi.
Qed.

Lemma py_nth_end {A} (l : list A) i : i = Z.of_nat (length l) -> py_nth l i = None.
Proof.
  intros ->. unfold py_nth.
  destruct (0 <=? Z.of_nat (length l)) eqn:E1; [|lia].
  destruct (Z.of_nat (length l) <? Z.of_nat (length l)) eqn:E2; [lia|]. reflexivity.
Qed.

Lemma py_nth_neg2 {A} (l : list A) : (2 <= length l)%nat -> exists x, py_nth l (-2) = Some x /\ In x l.
Proof.
  intros Hl. unfold py_nth.
  replace (0 <=? -2) with false by reflexivity.
  destruct (0 <=? -2 + Z.of_nat (length l)) eqn:E1; [|lia].
  destruct (nth_error l (Z.to_nat (-2 + Z.of_nat (length l)))) as [x|] eqn:E2.
  - exists x. split; [reflexivity|]. eapply nth_error_In. exact E2.
  - apply nth_error_None in E2. lia.
Qed.

(* ---- token hierarchy ---------------------------------------------------------------------------- *)
Definition delta (t : str) : Z := if is_open t then 1 else if is_close t then -1 else 0.
Fixpoint net (ts : list str) : Z := match ts with [] => 0 | t :: r => delta t + net r end.

Lemma net_app : forall a b, net (a ++ b) = net a + net b.
Proof.
  induction a as [|t a IH]; intros b; cbn [net app]; [reflexivity|]. rewrite IH. lia.
Qed.

Lemma levels_go_app : forall a L b, levels_go L (a ++ b) = levels_go L a ++ levels_go (L + net a) b.
Proof.
  induction a as [|t a IH]; intros L b; cbn [levels_go net app].
  - rewrite Z.add_0_r. reflexivity.
  - unfold delta. destruct (is_open t); [|destruct (is_close t)]; rewrite IH; cbn [app]; do 3 f_equal; lia.
Qed.

Lemma levels_go_length : forall ts L, length (levels_go L ts) = length ts.
Proof.
  induction ts as [|t ts IH]; intros L; cbn [levels_go length]; [reflexivity|].
  destruct (is_open t); [|destruct (is_close t)]; cbn [length]; rewrite IH; reflexivity.
Qed.

Lemma levels_go_snd : forall ts L, map snd (levels_go L ts) = ts.
Proof.
  induction ts as [|t ts IH]; intros L; cbn [levels_go map]; [reflexivity|].
  destruct (is_open t); [|destruct (is_close t)]; cbn [map snd]; rewrite IH; reflexivity.
Qed.

Definition nc (s : str) : Prop := is_comment_tok s = false.

Record good (ts : list str) : Prop := mkGood {
  g_net : net ts = 0;
  g_ge : forall L, Forall (fun z : ztok => L <= fst z) (levels_go L ts);
  g_nc : Forall nc ts }.

Lemma good_nil : good [].
Proof. split; [reflexivity|intros L; constructor|constructor]. Qed.

Lemma good_app a b : good a -> good b -> good (a ++ b).
Proof.
  intros [Ha1 Ha2 Ha3] [Hb1 Hb2 Hb3]. split.
  - rewrite net_app. lia.
  - intros L. rewrite levels_go_app, Ha1, Z.add_0_r. apply Forall_app. split; [apply Ha2|apply Hb2].
  - apply Forall_app. split; assumption.
Qed.

Lemma good_single t : is_open t = false -> is_close t = false -> nc t -> good [t].
Proof.
  intros Ho Hc Hn. split.
  - cbn [net]. unfold delta. rewrite Ho, Hc. reflexivity.
  - intros L. cbn [levels_go]. rewrite Ho, Hc. constructor; [cbn [fst]; lia|constructor].
  - constructor; [exact Hn|constructor].
Qed.

Lemma good_wrap o c a :
  is_open o = true -> is_open c = false -> is_close c = true -> nc o -> nc c ->
  good a -> good (o :: a ++ [c]).
Proof.
  intros Ho Hco Hc Hno Hnc [Ha1 Ha2 Ha3]. split.
  - cbn [net]. rewrite net_app, Ha1. cbn [net]. unfold delta. rewrite Ho, Hco, Hc. reflexivity.
  - intros L. cbn [levels_go]. rewrite Ho. constructor; [cbn [fst]; lia|].
    rewrite levels_go_app, Ha1. apply Forall_app. split.
    + eapply Forall_impl; [|apply (Ha2 (L + 1))]. intros z Hz. cbn beta in Hz. lia.
    + cbn [levels_go]. rewrite Hco, Hc. constructor; [cbn [fst]; lia|constructor].
  - constructor; [exact Hno|]. apply Forall_app. split; [exact Ha3|]. constructor; [exact Hnc|constructor].
Qed.

Lemma good_ge_nc ts L : good ts ->
  Forall (fun z : ztok => L <= fst z) (levels_go L ts) /\ Forall (fun z : ztok => nc (snd z)) (levels_go L ts).
Proof.
  intros [H1 H2 H3]. split; [apply H2|].
  rewrite <- (levels_go_snd ts L) in H3. rewrite Forall_map in H3. exact H3.
Qed.

(* ---- the helper scans --------------------------------------------------------------------------- *)
Lemma collect_go : forall (content : list ztok) f (ts pre done post : list ztok) acc L cl,
  ts = pre ++ done ++ content ++ (L, cl) :: post ->
  Forall (fun z : ztok => str_eqb (snd z) cl = false \/ fst z <> L) content ->
  is_comment_tok cl = false ->
  (length content < f)%nat ->
  collect_struct f ts (Z.of_nat (length pre)) (Z.of_nat (length done)) cl L acc
  = Ok (rev acc ++ content ++ [(L, cl)], Z.of_nat (length done + length content)).
Proof.
  induction content as [|z content IH]; intros f ts pre done post acc L cl Hts Hall Hcl Hf.
  - destruct f as [|f]; [cbn [length] in Hf; lia|].
    cbn [collect_struct].
    assert (Hn : py_nth ts (Z.of_nat (length pre) + Z.of_nat (length done)) = Some (L, cl)).
    { subst ts. cbn [app]. apply py_nth_off. lia. }
    rewrite Hn.
    rewrite str_eqb_refl, Z.eqb_refl. cbn [negb orb andb rev app length].
    rewrite Nat.add_0_r. reflexivity.
  - destruct f as [|f]; [cbn [length] in Hf; lia|].
    cbn [collect_struct].
    assert (Hn : py_nth ts (Z.of_nat (length pre) + Z.of_nat (length done)) = Some z).
    { subst ts. cbn [app]. apply py_nth_off. lia. }
    rewrite Hn. destruct z as [lv txt].
    inversion Hall as [|z' c' Hz Hall']; subst z' c'. cbn [fst snd] in Hz.
    assert (Hc : negb (str_eqb txt cl) || (negb (lv =? L) && negb (is_comment_tok txt)) = true).
    { destruct (str_eqb txt cl) eqn:E; [|reflexivity].
      apply str_eqb_eq in E. subst txt. rewrite Hcl.
      destruct Hz as [Hz|Hz]; [discriminate|].
      destruct (lv =? L) eqn:E2; [lia|reflexivity]. }
    rewrite Hc.
    replace (Z.of_nat (length done) + 1) with (Z.of_nat (length (done ++ [(lv, txt)])))
      by (rewrite app_length; cbn [length]; lia).
    rewrite (IH f ts pre (done ++ [(lv, txt)]) post ((lv, txt) :: acc) L cl).
    + cbn [rev]. rewrite <- !app_assoc. cbn [app]. do 2 f_equal.
      rewrite app_length. cbn [length]. lia.
    + subst ts. rewrite <- !app_assoc. reflexivity.
    + exact Hall'.
    + exact Hcl.
    + cbn [length] in Hf. lia.
Qed.

Lemma collect_ok f (pre : list ztok) L op cl (content post ts : list ztok) ti :
  ts = pre ++ (L, op) :: content ++ (L, cl) :: post ->
  ti = Z.of_nat (length pre) ->
  str_eqb op cl = false -> is_comment_tok cl = false ->
  Forall (fun z : ztok => L + 1 <= fst z) content ->
  (length content + 1 < f)%nat ->
  collect_struct f ts ti 0 cl L []
  = Ok ((L, op) :: content ++ [(L, cl)], Z.of_nat (length content) + 1).
Proof.
  intros Hts Hti Hoc Hcl Hall Hf. subst ti.
  change 0 with (Z.of_nat (length (@nil ztok))).
  rewrite (collect_go ((L, op) :: content) f ts pre [] post [] L cl).
  - cbn [rev app length]. do 2 f_equal. lia.
  - subst ts. reflexivity.
  - constructor; [left; exact Hoc|].
    eapply Forall_impl; [|exact Hall]. intros z Hz. cbn beta in Hz. right. lia.
  - exact Hcl.
  - cbn [length]. lia.
Qed.

Lemma check_end_ok f (ds : list ztok) :
  (2 <= length ds)%nat -> Forall (fun z : ztok => nc (snd z)) ds -> check_dict_end (S f) ds (-2) = Ok tt.
Proof.
  intros Hl Hall. destruct (py_nth_neg2 ds Hl) as [[lv txt] [Hx Hin]].
  cbn [check_dict_end]. rewrite Hx.
  rewrite Forall_forall in Hall. specialize (Hall _ Hin). cbn [snd] in Hall. unfold nc in Hall.
  rewrite Hall. reflexivity.
Qed.

Lemma key_index_ok f (ts : list ztok) ti lv txt :
  py_nth ts (ti - 1) = Some (lv, txt) -> nc txt -> key_index (S f) ts ti 1 = Ok (ti - 1).
Proof.
  intros Hn Hc. cbn [key_index]. rewrite Hn. unfold nc in Hc. rewrite Hc. reflexivity.
Qed.

Definition plain (s : str) : Prop := plain_token s = true.

Lemma plain_inv s : plain s ->
  is_open s = false /\ is_close s = false /\ str_eqb s t_semi = false /\
  is_comment_tok s = false /\ is_include_tok s = false.
Proof.
  unfold plain, plain_token. intros H.
  repeat (apply andb_true_iff in H; destruct H as [H ?]).
  repeat match goal with H : negb _ = true |- _ => apply negb_true_iff in H end.
  repeat split; assumption.
Qed.

Lemma not_open_inv s : is_open s = false ->
  str_eqb s t_lbrace = false /\ str_eqb s t_lbrk = false /\ str_eqb s t_lpar = false.
Proof.
  unfold is_open. intros H. apply orb_false_iff in H. destruct H as [H H3].
  apply orb_false_iff in H. destruct H as [H1 H2]. repeat split; assumption.
Qed.

Lemma not_close_inv s : is_close s = false ->
  str_eqb s t_rbrace = false /\ str_eqb s t_rbrk = false /\ str_eqb s t_rpar = false.
Proof.
  unfold is_close. intros H. apply orb_false_iff in H. destruct H as [H H3].
  apply orb_false_iff in H. destruct H as [H1 H2]. repeat split; assumption.
Qed.

(* the token before position ti - 2 (if any) ends a statement *)
Definition stop3 (ts : list ztok) (ti : Z) : Prop :=
  ti - 3 < 0 \/ exists lv t, py_nth ts (ti - 3) = Some (lv, t) /\ (t = t_semi \/ t = t_rbrace).

Lemma kv_back_ok f (ts : list ztok) ti L k v acc :
  py_nth ts (ti - 1) = Some (L, v) -> py_nth ts (ti - 2) = Some (L, k) ->
  plain k -> plain v -> 0 <= ti - 2 -> stop3 ts ti ->
  kv_back (S (S (S f))) ts ti 1 L acc = (L, k) :: (L, v) :: acc.
Proof.
  intros Hv Hk Pk Pv Hge Hstop.
  destruct (plain_inv k Pk) as (_ & Kc & Ks & Kcm & Kin).
  destruct (plain_inv v Pv) as (_ & Vc & Vs & Vcm & Vin).
  apply not_close_inv in Kc. destruct Kc as (Kb & _ & _).
  apply not_close_inv in Vc. destruct Vc as (Vb & _ & _).
  cbn [kv_back].
  destruct (ti - 1 <? 0) eqn:E1; [lia|]. rewrite Hv.
  rewrite Z.eqb_refl, Vs, Vb, Vcm, Vin. cbn [negb andb].
  change (1 + 1) with 2.
  destruct (ti - 2 <? 0) eqn:E2; [lia|]. rewrite Hk.
  rewrite Z.eqb_refl, Ks, Kb, Kcm, Kin. cbn [negb andb].
  change (2 + 1) with 3.
  destruct Hstop as [Hs|(lv & t & Hn & Ht)].
  - destruct (ti - 3 <? 0) eqn:E3; [reflexivity|lia].
  - destruct (ti - 3 <? 0) eqn:E3; [reflexivity|]. rewrite Hn.
    destruct Ht as [-> | ->].
    + change (str_eqb t_semi t_semi) with true. rewrite andb_false_r. reflexivity.
    + change (str_eqb t_rbrace t_rbrace) with true. change (str_eqb t_rbrace t_semi) with false.
      cbn [negb]. rewrite andb_true_r, andb_false_r. reflexivity.
Qed.

(* ---- one unfolding of the two parsers ----------------------------------------------------------- *)
Lemma parse_dict_go_S f ts ti acc :
  parse_dict_go (S f) ts ti acc =
      match py_nth ts ti with
      | None => Ok acc
      | Some (lv, txt) =>
          if (ti <? 0)%Z then Ok acc else
          if is_open txt then
            bind (key_index f ts ti 1%Z) (fun kidx =>
            match py_nth ts kidx with
            | None => Raise E_Index
            | Some (_, ktxt) =>
                bind (parse_key ktxt) (fun k =>
                bind (collect_struct f ts ti 0%Z (companion txt) lv []) (fun cs =>
                let (ds, i) := cs in
                bind (if str_eqb (last_text ds) t_rpar
                      then match py_nth ts (ti + i + 1)%Z with Some _ => Ok tt | None => Raise E_Index end
                      else Ok tt) (fun _ =>
                bind (if str_eqb (last_text ds) t_rbrace then check_dict_end f ds (-2)%Z else Ok tt) (fun _ =>
                bind (if str_eqb (first_text ds) t_lpar then
                        (if Nat.ltb (length ds) 3 then Ok (aset k (Lst []) acc)
                         else bind (parse_list_go f ds 0%Z (fst (hd (0%Z, []) ds)) []) (fun l => Ok (aset k (Lst l) acc)))
                      else if str_eqb (first_text ds) t_lbrace then
                        bind (parse_dict_go f (inner ds) 0%Z []) (fun d => Ok (aset k (Dict d) acc))
                      else Ok acc) (fun acc' =>
                parse_dict_go f ts (if (0 <? i)%Z then ti + i + 1 else ti + 1)%Z acc')))))
            end)
          else if str_eqb txt t_semi &&
                  negb (match py_nth ts (ti - 1)%Z with Some (_, p) => str_eqb p t_rpar | None => false end) then
            match py_nth ts (ti - 1)%Z with
            | None => Raise E_Index
            | Some _ =>
                let kv := kv_back f ts ti 1%Z lv [(lv, txt)] in
                match kv with
                | [(_, ktxt); (_, vtxt); _] =>
                    bind (parse_key ktxt) (fun k =>
                    bind (parse_value vtxt) (fun v => parse_dict_go f ts (ti + 1)%Z (aset k (Leaf v) acc)))
                | _ => parse_dict_go f ts (ti + 1)%Z acc
                end
            end
          else if is_comment_tok txt || is_include_tok txt then
            parse_dict_go f ts (ti + 1)%Z (aset (KS txt) (Leaf (SStr txt)) acc)
          else parse_dict_go f ts (ti + 1)%Z acc
      end.
Proof. reflexivity. Qed.

Lemma parse_list_go_S f ts ti base acc :
  parse_list_go (S f) ts ti base acc =
      match py_nth ts ti with
      | None => Ok (rev acc)
      | Some (lv, txt) =>
          if (ti <? 0)%Z then Ok (rev acc) else
          if is_open txt && (base <? lv)%Z then
            bind (collect_struct f ts ti 0%Z (companion txt) lv []) (fun cs =>
            let (ds, i) := cs in
            bind (if str_eqb (last_text ds) t_rbrace then check_dict_end f ds (-2)%Z else Ok tt) (fun _ =>
            bind (if str_eqb (first_text ds) t_lpar then
                    (if Nat.ltb (length ds) 3 then Ok (Lst [] :: acc)
                     else bind (parse_list_go f ds 0%Z (fst (hd (0%Z, []) ds)) []) (fun l => Ok (Lst l :: acc)))
                  else if str_eqb (first_text ds) t_lbrace then
                    bind (parse_dict_go f (inner ds) 0%Z []) (fun d => Ok (Dict d :: acc))
                  else Ok acc) (fun acc' =>
            parse_list_go f ts (if (0 <? i)%Z then ti + i + 1 else ti + 1)%Z base acc')))
          else if negb (str_eqb txt t_lpar) && negb (str_eqb txt t_rpar) && negb (str_eqb txt t_semi) then
            bind (parse_value txt) (fun v => parse_list_go f ts (ti + 1)%Z base (Leaf v :: acc))
          else parse_list_go f ts (ti + 1)%Z base acc
      end.
Proof. reflexivity. Qed.

Lemma last_text_wrap x (a : list ztok) l t : last_text (x :: a ++ [(l, t)]) = t.
Proof.
  unfold last_text. change (x :: a ++ [(l, t)]) with ((x :: a) ++ [(l, t)]).
  rewrite rev_unit. reflexivity.
Qed.

Lemma inner_wrap {A} (x : A) a y : inner (x :: a ++ [y]) = a.
Proof. unfold inner. cbn [tl]. apply removelast_last. Qed.

Ltac list_eq := subst; repeat (first [rewrite <- app_assoc | progress cbn [app]]); reflexivity.
Ltac len_eq := subst; repeat first [rewrite app_length | rewrite levels_go_length | progress cbn [length]]; lia.

(* ---- dict loop steps ---------------------------------------------------------------------------- *)
Lemma pd_end f (ts : list ztok) ti acc : py_nth ts ti = None -> parse_dict_go (S f) ts ti acc = Ok acc.
Proof. intros H. rewrite parse_dict_go_S, H. reflexivity. Qed.

Lemma pd_skip f (ts : list ztok) ti acc lv txt :
  py_nth ts ti = Some (lv, txt) -> 0 <= ti ->
  is_open txt = false -> str_eqb txt t_semi = false ->
  is_comment_tok txt = false -> is_include_tok txt = false ->
  parse_dict_go (S f) ts ti acc = parse_dict_go f ts (ti + 1) acc.
Proof.
  intros H H0 H1 H2 H3 H4. rewrite parse_dict_go_S, H.
  destruct (ti <? 0) eqn:E; [lia|]. rewrite H1, H2, H3, H4. reflexivity.
Qed.

Lemma pd_plain f (ts : list ztok) ti acc lv txt :
  py_nth ts ti = Some (lv, txt) -> 0 <= ti -> plain txt ->
  parse_dict_go (S f) ts ti acc = parse_dict_go f ts (ti + 1) acc.
Proof.
  intros H H0 Hp. destruct (plain_inv txt Hp) as (A1 & A2 & A3 & A4 & A5).
  eapply pd_skip; eassumption.
Qed.

Lemma semi_facts : is_open t_semi = false /\ str_eqb t_semi t_semi = true /\
  is_comment_tok t_semi = false /\ is_include_tok t_semi = false.
Proof. repeat split; vm_compute; reflexivity. Qed.

Lemma pd_semi_rpar f (ts : list ztok) ti acc lv l' :
  py_nth ts ti = Some (lv, t_semi) -> 0 <= ti -> py_nth ts (ti - 1) = Some (l', t_rpar) ->
  parse_dict_go (S f) ts ti acc = parse_dict_go f ts (ti + 1) acc.
Proof.
  intros H H0 H1. rewrite parse_dict_go_S, H.
  destruct (ti <? 0) eqn:E; [lia|]. rewrite H1.
  destruct semi_facts as (A1 & A2 & A3 & A4). rewrite A1, A2, A3, A4.
  change (str_eqb t_rpar t_rpar) with true. reflexivity.
Qed.

Lemma pd_kv f (ts : list ztok) ti acc L k v kk vv :
  py_nth ts ti = Some (L, t_semi) ->
  py_nth ts (ti - 1) = Some (L, v) -> py_nth ts (ti - 2) = Some (L, k) ->
  plain k -> plain v -> 0 <= ti - 2 -> stop3 ts ti ->
  parse_key k = Ok kk -> parse_value v = Ok vv ->
  parse_dict_go (S (S (S (S f)))) ts ti acc = parse_dict_go (S (S (S f))) ts (ti + 1) (aset kk (Leaf vv) acc).
Proof.
  intros H Hv Hk Pk Pv Hge Hstop Hpk Hpv. rewrite parse_dict_go_S, H.
  destruct (ti <? 0) eqn:E; [lia|]. rewrite Hv.
  destruct semi_facts as (A1 & A2 & A3 & A4). rewrite A1, A2.
  destruct (plain_inv v Pv) as (_ & Vc & _).
  apply not_close_inv in Vc. destruct Vc as (_ & _ & Vc). rewrite Vc.
  cbn [negb andb].
  rewrite (kv_back_ok f ts ti L k v _ Hv Hk Pk Pv Hge Hstop).
  cbv beta iota zeta. rewrite Hpk, Hpv. reflexivity.
Qed.

Lemma brace_facts : is_open t_lbrace = true /\ companion t_lbrace = t_rbrace /\
  str_eqb t_lbrace t_rbrace = false /\ is_comment_tok t_rbrace = false /\ is_comment_tok t_lbrace = false /\
  str_eqb t_rbrace t_rpar = false /\ str_eqb t_rbrace t_rbrace = true /\
  str_eqb t_lbrace t_lpar = false /\ str_eqb t_lbrace t_lbrace = true /\
  is_open t_rbrace = false /\ is_close t_rbrace = true.
Proof. repeat split; vm_compute; reflexivity. Qed.

Lemma par_facts : is_open t_lpar = true /\ companion t_lpar = t_rpar /\
  str_eqb t_lpar t_rpar = false /\ is_comment_tok t_rpar = false /\ is_comment_tok t_lpar = false /\
  str_eqb t_rpar t_rpar = true /\ str_eqb t_rpar t_rbrace = false /\
  str_eqb t_lpar t_lpar = true /\
  is_open t_rpar = false /\ is_close t_rpar = true /\ str_eqb t_rpar t_lpar = false /\
  str_eqb t_rpar t_semi = false /\ str_eqb t_lpar t_semi = false.
Proof. repeat split; vm_compute; reflexivity. Qed.

Lemma wrap_nc (x y : ztok) (content : list ztok) :
  nc (snd x) -> nc (snd y) -> Forall (fun z : ztok => nc (snd z)) content ->
  Forall (fun z : ztok => nc (snd z)) (x :: content ++ [y]).
Proof.
  intros Hx Hy Hc. constructor; [exact Hx|]. apply Forall_app. split; [exact Hc|].
  constructor; [exact Hy|constructor].
Qed.

Lemma pd_open_dict f (ts pre content post : list ztok) ti acc L ktxt k d :
  ts = pre ++ (L, ktxt) :: (L, t_lbrace) :: content ++ (L, t_rbrace) :: post ->
  ti = Z.of_nat (length pre) + 1 ->
  nc ktxt -> parse_key ktxt = Ok k ->
  Forall (fun z : ztok => L + 1 <= fst z) content ->
  Forall (fun z : ztok => nc (snd z)) content ->
  (length content + 1 < S f)%nat ->
  parse_dict_go (S f) content 0 [] = Ok d ->
  parse_dict_go (S (S f)) ts ti acc
  = parse_dict_go (S f) ts (ti + Z.of_nat (length content) + 2) (aset k (Dict d) acc).
Proof.
  intros Hts Hti Hnk Hpk Hge Hnc Hf Hd.
  destruct brace_facts as (B1 & B2 & B3 & B4 & B5 & B6 & B7 & B8 & B9 & _).
  assert (H0 : py_nth ts ti = Some (L, t_lbrace)).
  { apply py_nth_split with (a := pre ++ [(L, ktxt)]) (b := content ++ (L, t_rbrace) :: post); [list_eq|len_eq]. }
  assert (H1 : py_nth ts (ti - 1) = Some (L, ktxt)).
  { apply py_nth_split with (a := pre) (b := (L, t_lbrace) :: content ++ (L, t_rbrace) :: post); [list_eq|len_eq]. }
  rewrite parse_dict_go_S, H0.
  destruct (ti <? 0) eqn:E; [lia|]. rewrite B1.
  rewrite (key_index_ok f ts ti L ktxt H1 Hnk). cbn [bind]. rewrite H1. cbv beta iota.
  rewrite Hpk. cbn [bind]. rewrite B2.
  rewrite (collect_ok (S f) (pre ++ [(L, ktxt)]) L t_lbrace t_rbrace content post ts ti);
    [|list_eq|len_eq|exact B3|exact B4|exact Hge|exact Hf].
  cbn [bind]. cbv beta iota.
  rewrite !last_text_wrap. rewrite B6, B7. cbn [bind].
  rewrite check_end_ok; [|len_eq|apply wrap_nc; assumption].
  cbn [bind first_text]. rewrite B8, B9. rewrite inner_wrap, Hd. cbn [bind].
  destruct (0 <? Z.of_nat (length content) + 1) eqn:E2; [|lia].
  f_equal. lia.
Qed.

Lemma pd_open_list f (ts pre content post : list ztok) ti acc L ktxt k l :
  ts = pre ++ (L, ktxt) :: (L, t_lpar) :: content ++ (L, t_rpar) :: (L, t_semi) :: post ->
  ti = Z.of_nat (length pre) + 1 ->
  nc ktxt -> parse_key ktxt = Ok k ->
  Forall (fun z : ztok => L + 1 <= fst z) content ->
  (length content + 1 < S f)%nat ->
  (content = [] -> l = []) ->
  (content <> [] -> parse_list_go (S f) ((L, t_lpar) :: content ++ [(L, t_rpar)]) 0 L [] = Ok l) ->
  parse_dict_go (S (S f)) ts ti acc
  = parse_dict_go (S f) ts (ti + Z.of_nat (length content) + 2) (aset k (Lst l) acc).
Proof.
  intros Hts Hti Hnk Hpk Hge Hf Hl0 Hl1.
  destruct par_facts as (B1 & B2 & B3 & B4 & B5 & B6 & B7 & B8 & _).
  assert (H0 : py_nth ts ti = Some (L, t_lpar)).
  { apply py_nth_split with (a := pre ++ [(L, ktxt)]) (b := content ++ (L, t_rpar) :: (L, t_semi) :: post); [list_eq|len_eq]. }
  assert (H1 : py_nth ts (ti - 1) = Some (L, ktxt)).
  { apply py_nth_split with (a := pre) (b := (L, t_lpar) :: content ++ (L, t_rpar) :: (L, t_semi) :: post); [list_eq|len_eq]. }
  assert (H2 : py_nth ts (ti + (Z.of_nat (length content) + 1) + 1) = Some (L, t_semi)).
  { apply py_nth_split with (a := pre ++ (L, ktxt) :: (L, t_lpar) :: content ++ [(L, t_rpar)]) (b := post); [list_eq|len_eq]. }
  rewrite parse_dict_go_S, H0.
  destruct (ti <? 0) eqn:E; [lia|]. rewrite B1.
  rewrite (key_index_ok f ts ti L ktxt H1 Hnk). cbn [bind]. rewrite H1. cbv beta iota.
  rewrite Hpk. cbn [bind]. rewrite B2.
  rewrite (collect_ok (S f) (pre ++ [(L, ktxt)]) L t_lpar t_rpar content ((L, t_semi) :: post) ts ti);
    [|list_eq|len_eq|exact B3|exact B4|exact Hge|exact Hf].
  cbn [bind]. cbv beta iota.
  rewrite !last_text_wrap. rewrite B6, B7, H2. cbn [bind first_text]. rewrite B8.
  destruct (0 <? Z.of_nat (length content) + 1) eqn:E2; [|lia].
  destruct content as [|z content].
  - rewrite (Hl0 eq_refl). cbn [app length Nat.ltb Nat.leb bind]. f_equal. cbn [length]. lia.
  - match goal with |- context [Nat.ltb ?a 3] =>
      replace (Nat.ltb a 3) with false by (symmetry; apply Nat.ltb_ge; len_eq) end.
    cbn [hd fst]. specialize (Hl1 ltac:(discriminate)). unfold ztok, str in *. rewrite Hl1. cbn [bind]. f_equal. lia.
Qed.

(* ---- list loop steps ---------------------------------------------------------------------------- *)
Lemma pl_end f (ts : list ztok) ti base acc :
  py_nth ts ti = None -> parse_list_go (S f) ts ti base acc = Ok (rev acc).
Proof. intros H. rewrite parse_list_go_S, H. reflexivity. Qed.

Lemma pl_lpar f (ts : list ztok) ti base acc :
  py_nth ts ti = Some (base, t_lpar) -> 0 <= ti ->
  parse_list_go (S f) ts ti base acc = parse_list_go f ts (ti + 1) base acc.
Proof.
  intros H H0. rewrite parse_list_go_S, H.
  destruct (ti <? 0) eqn:E; [lia|].
  destruct par_facts as (B1 & B2 & B3 & B4 & B5 & B6 & B7 & B8 & _).
  rewrite B1, Z.ltb_irrefl, B8. reflexivity.
Qed.

Lemma pl_rpar f (ts : list ztok) ti base acc lv :
  py_nth ts ti = Some (lv, t_rpar) -> 0 <= ti ->
  parse_list_go (S f) ts ti base acc = parse_list_go f ts (ti + 1) base acc.
Proof.
  intros H H0. rewrite parse_list_go_S, H.
  destruct (ti <? 0) eqn:E; [lia|].
  destruct par_facts as (B1 & B2 & B3 & B4 & B5 & B6 & B7 & B8 & B9 & B10 & B11 & _).
  rewrite B9, B6. cbn [andb negb]. rewrite andb_false_r. reflexivity.
Qed.

Lemma pl_leaf f (ts : list ztok) ti base acc lv txt v :
  py_nth ts ti = Some (lv, txt) -> 0 <= ti -> plain txt -> parse_value txt = Ok v ->
  parse_list_go (S f) ts ti base acc = parse_list_go f ts (ti + 1) base (Leaf v :: acc).
Proof.
  intros H H0 Hp Hv. rewrite parse_list_go_S, H.
  destruct (ti <? 0) eqn:E; [lia|].
  destruct (plain_inv txt Hp) as (A1 & A2 & A3 & _).
  apply not_open_inv in A1. destruct A1 as (O1 & O2 & O3).
  apply not_close_inv in A2. destruct A2 as (C1 & C2 & C3).
  unfold is_open. rewrite O1, O2, O3, C3, A3. cbn [orb andb negb]. rewrite Hv. reflexivity.
Qed.

Lemma pl_open_dict f (ts pre content post : list ztok) ti base acc L d :
  ts = pre ++ (L, t_lbrace) :: content ++ (L, t_rbrace) :: post ->
  ti = Z.of_nat (length pre) -> base < L ->
  Forall (fun z : ztok => L + 1 <= fst z) content ->
  Forall (fun z : ztok => nc (snd z)) content ->
  (length content + 1 < S f)%nat ->
  parse_dict_go (S f) content 0 [] = Ok d ->
  parse_list_go (S (S f)) ts ti base acc
  = parse_list_go (S f) ts (ti + Z.of_nat (length content) + 2) base (Dict d :: acc).
Proof.
  intros Hts Hti Hb Hge Hnc Hf Hd.
  destruct brace_facts as (B1 & B2 & B3 & B4 & B5 & B6 & B7 & B8 & B9 & _).
  assert (H0 : py_nth ts ti = Some (L, t_lbrace)).
  { apply py_nth_split with (a := pre) (b := content ++ (L, t_rbrace) :: post); [list_eq|len_eq]. }
  rewrite parse_list_go_S, H0.
  destruct (ti <? 0) eqn:E; [lia|]. rewrite B1.
  destruct (base <? L) eqn:E1; [|lia]. cbn [andb]. rewrite B2.
  rewrite (collect_ok (S f) pre L t_lbrace t_rbrace content post ts ti);
    [|list_eq|len_eq|exact B3|exact B4|exact Hge|exact Hf].
  cbn [bind]. cbv beta iota.
  rewrite !last_text_wrap. rewrite B7.
  rewrite check_end_ok; [|len_eq|apply wrap_nc; assumption].
  cbn [bind first_text]. rewrite B8, B9. rewrite inner_wrap, Hd. cbn [bind].
  destruct (0 <? Z.of_nat (length content) + 1) eqn:E2; [|lia].
  f_equal. lia.
Qed.

Lemma pl_open_list f (ts pre content post : list ztok) ti base acc L l :
  ts = pre ++ (L, t_lpar) :: content ++ (L, t_rpar) :: post ->
  ti = Z.of_nat (length pre) -> base < L ->
  Forall (fun z : ztok => L + 1 <= fst z) content ->
  (length content + 1 < S f)%nat ->
  (content = [] -> l = []) ->
  (content <> [] -> parse_list_go (S f) ((L, t_lpar) :: content ++ [(L, t_rpar)]) 0 L [] = Ok l) ->
  parse_list_go (S (S f)) ts ti base acc
  = parse_list_go (S f) ts (ti + Z.of_nat (length content) + 2) base (Lst l :: acc).
Proof.
  intros Hts Hti Hb Hge Hf Hl0 Hl1.
  destruct par_facts as (B1 & B2 & B3 & B4 & B5 & B6 & B7 & B8 & _).
  assert (H0 : py_nth ts ti = Some (L, t_lpar)).
  { apply py_nth_split with (a := pre) (b := content ++ (L, t_rpar) :: post); [list_eq|len_eq]. }
  rewrite parse_list_go_S, H0.
  destruct (ti <? 0) eqn:E; [lia|]. rewrite B1.
  destruct (base <? L) eqn:E1; [|lia]. cbn [andb]. rewrite B2.
  rewrite (collect_ok (S f) pre L t_lpar t_rpar content post ts ti);
    [|list_eq|len_eq|exact B3|exact B4|exact Hge|exact Hf].
  cbn [bind]. cbv beta iota.
  rewrite !last_text_wrap. rewrite B7. cbn [bind first_text]. rewrite B8.
  destruct (0 <? Z.of_nat (length content) + 1) eqn:E2; [|lia].
  destruct content as [|z content].
  - rewrite (Hl0 eq_refl). cbn [app length Nat.ltb Nat.leb bind]. f_equal. cbn [length]. lia.
  - match goal with |- context [Nat.ltb ?a 3] =>
      replace (Nat.ltb a 3) with false by (symmetry; apply Nat.ltb_ge; len_eq) end.
    cbn [hd fst]. specialize (Hl1 ltac:(discriminate)). unfold ztok, str in *. rewrite Hl1.
    cbn [bind]. f_equal. lia.
Qed.

(* ---- association lists -------------------------------------------------------------------------- *)
Lemma aset_fresh {V} (k : key) (v : V) acc :
  existsb (key_eqb k) (map fst acc) = false -> aset k v acc = acc ++ [(k, v)].
Proof.
  induction acc as [|[k' v'] acc IH]; cbn [aset map existsb fst app]; intros H; [reflexivity|].
  apply orb_false_iff in H. destruct H as [H1 H2]. rewrite H1, (IH H2). reflexivity.
Qed.

Lemma nodup_mid a k b : keys_nodup (a ++ k :: b) = true -> existsb (key_eqb k) a = false.
Proof.
  induction a as [|x a IH]; cbn [app keys_nodup existsb]; intros H; [reflexivity|].
  apply andb_true_iff in H. destruct H as [H1 H2]. apply negb_true_iff in H1.
  rewrite existsb_app in H1. apply orb_false_iff in H1. destruct H1 as [_ H1]. cbn [existsb] in H1.
  apply orb_false_iff in H1. destruct H1 as [H1 _]. rewrite key_eqb_sym, H1, (IH H2). reflexivity.
Qed.

Lemma aset_step (k : key) (v : tree) acc ks :
  keys_nodup (map fst acc ++ k :: ks) = true ->
  aset k v acc = acc ++ [(k, v)] /\ keys_nodup (map fst (acc ++ [(k, v)]) ++ ks) = true.
Proof.
  intros H. split.
  - apply aset_fresh. eapply nodup_mid. exact H.
  - rewrite map_app. cbn [map fst]. rewrite <- app_assoc. exact H.
Qed.

(* ---- levels of single tokens -------------------------------------------------------------------- *)
Lemma lev_plain L t r : plain t -> levels_go L (t :: r) = (L, t) :: levels_go L r.
Proof.
  intros Hp. destruct (plain_inv t Hp) as (A1 & A2 & _). cbn [levels_go]. rewrite A1, A2. reflexivity.
Qed.
Lemma lev_semi L r : levels_go L (t_semi :: r) = (L, t_semi) :: levels_go L r.
Proof. reflexivity. Qed.
Lemma lev_lbrace L r : levels_go L (t_lbrace :: r) = (L, t_lbrace) :: levels_go (L + 1) r.
Proof. reflexivity. Qed.
Lemma lev_lpar L r : levels_go L (t_lpar :: r) = (L, t_lpar) :: levels_go (L + 1) r.
Proof. reflexivity. Qed.
Lemma lev_rbrace L r : levels_go (L + 1) (t_rbrace :: r) = (L, t_rbrace) :: levels_go L r.
Proof.
  change (levels_go (L + 1) (t_rbrace :: r)) with ((L + 1 - 1, t_rbrace) :: levels_go (L + 1 - 1) r).
  replace (L + 1 - 1) with L by lia. reflexivity.
Qed.
Lemma lev_rpar L r : levels_go (L + 1) (t_rpar :: r) = (L, t_rpar) :: levels_go L r.
Proof.
  change (levels_go (L + 1) (t_rpar :: r)) with ((L + 1 - 1, t_rpar) :: levels_go (L + 1 - 1) r).
  replace (L + 1 - 1) with L by lia. reflexivity.
Qed.

Definition tail_ok (tail : list ztok) : Prop := tail = [] \/ exists l, tail = [(l, [])].
Definition pre_ok (pre : list ztok) : Prop :=
  pre = [] \/ exists pre' lv t, pre = pre' ++ [(lv, t)] /\ (t = t_semi \/ t = t_rbrace).

Lemma stop3_of_pre (pre rest ts : list ztok) ti :
  pre_ok pre -> ts = pre ++ rest -> ti = Z.of_nat (length pre) + 2 -> stop3 ts ti.
Proof.
  intros [->|(pre' & lv & t & -> & Ht)] Hts Hti.
  - left. cbn [length] in Hti. lia.
  - right. exists lv, t. split; [|exact Ht].
    apply py_nth_split with (a := pre') (b := rest); [list_eq|len_eq].
Qed.

(* ---- the main induction ------------------------------------------------------------------------- *)
Section Main.
  Variable lt : scalar -> str.
  Variable kt : key -> str.
  Variable nv : scalar -> scalar.
  Hypothesis Hlt : forall v, plain_token (lt v) = true /\ parse_value (lt v) = Ok (nv v).
  Hypothesis Hkt : forall k, plain_token (kt k) = true /\ parse_key (kt k) = Ok k.

  Definition entry_toks (kc : key * tree) : list str :=
    match snd kc with
    | Leaf v => [kt (fst kc); lt v; t_semi]
    | Dict _ => [kt (fst kc); t_lbrace] ++ toks_tree lt kt false (snd kc) ++ [t_rbrace]
    | Lst _ => [kt (fst kc)] ++ toks_tree lt kt true (snd kc) ++ [t_semi]
    end.
  Definition entries (kvs : list (key * tree)) : list str := flat_map entry_toks kvs.
  Definition items (l : list tree) : list str := flat_map (toks_tree lt kt true) l.

  Lemma toks_dict b kvs :
    toks_tree lt kt b (Dict kvs)
    = (if b then [t_lbrace] else []) ++ entries kvs ++ (if b then [t_rbrace] else []).
  Proof.
    cbn [toks_tree]. f_equal. f_equal.
    induction kvs as [|[k c] kvs IH]; [reflexivity|].
    unfold entries. cbn [flat_map]. fold (entries kvs). rewrite <- IH.
    destruct c; reflexivity.
  Qed.

  Lemma toks_lst l : toks_tree lt kt true (Lst l) = [t_lpar] ++ items l ++ [t_rpar].
  Proof.
    reflexivity.
  Qed.

  Lemma toks_lst_b b l : toks_tree lt kt b (Lst l) = toks_tree lt kt true (Lst l).
  Proof. reflexivity. Qed.
  Lemma toks_leaf b v : toks_tree lt kt b (Leaf v) = [lt v].
  Proof. reflexivity. Qed.

  Definition mkv (kc : key * tree) : key * tree := (fst kc, map_leaves nv (snd kc)).

  Lemma map_leaves_dict kvs : map_leaves nv (Dict kvs) = Dict (map mkv kvs).
  Proof.
    cbn [map_leaves]. f_equal.
    induction kvs as [|[k c] kvs IH]; [reflexivity|]. cbn [map]. rewrite <- IH. reflexivity.
  Qed.
  Lemma map_leaves_lst l : map_leaves nv (Lst l) = Lst (map (map_leaves nv) l).
  Proof.
    reflexivity.
  Qed.

  Lemma wf_dict kvs : wf (Dict kvs) = keys_nodup (map fst kvs) && forallb (fun kc => wf (snd kc)) kvs.
  Proof.
    cbn [wf]. f_equal.
    induction kvs as [|[k c] kvs IH]; [reflexivity|]. cbn [forallb snd]. rewrite <- IH. reflexivity.
  Qed.
  Lemma wf_lst l : wf (Lst l) = forallb wf l.
  Proof.
    reflexivity.
  Qed.

  Lemma plain_lt v : plain (lt v). Proof. exact (proj1 (Hlt v)). Qed.
  Lemma plain_kt k : plain (kt k). Proof. exact (proj1 (Hkt k)). Qed.

  Lemma good_plain t : plain t -> good [t].
  Proof.
    intros Hp. destruct (plain_inv t Hp) as (A1 & A2 & _ & A4 & _). apply good_single; assumption.
  Qed.
  Lemma good_semi : good [t_semi].
  Proof. apply good_single; vm_compute; reflexivity. Qed.
  Lemma good_cons t a : good [t] -> good a -> good (t :: a).
  Proof. intros H1 H2. change (t :: a) with ([t] ++ a). apply good_app; assumption. Qed.
  Lemma good_braces a : good a -> good (t_lbrace :: a ++ [t_rbrace]).
  Proof. intros H. apply good_wrap; try (vm_compute; reflexivity). exact H. Qed.
  Lemma good_pars a : good a -> good (t_lpar :: a ++ [t_rpar]).
  Proof. intros H. apply good_wrap; try (vm_compute; reflexivity). exact H. Qed.

  Lemma good_entry kc : (forall b, good (toks_tree lt kt b (snd kc))) -> good (entry_toks kc).
  Proof.
    destruct kc as [k c]. cbn [snd]. intros Hc. unfold entry_toks. cbn [fst snd].
    destruct c as [v|d|l].
    - apply good_cons; [apply good_plain, plain_kt|].
      apply good_cons; [apply good_plain, plain_lt|]. apply good_semi.
    - cbn [app]. apply good_cons; [apply good_plain, plain_kt|]. apply good_braces. apply Hc.
    - cbn [app]. apply good_cons; [apply good_plain, plain_kt|]. apply good_app; [apply Hc|apply good_semi].
  Qed.

  Lemma good_tree : forall t b, good (toks_tree lt kt b t).
  Proof.
    induction t as [v|kvs IH|l IH] using tree_ind'; intros b.
    - apply good_plain, plain_lt.
    - rewrite toks_dict.
      assert (He : good (entries kvs)).
      { induction IH as [|kc kvs Hc _ IHk]; [apply good_nil|].
        unfold entries. cbn [flat_map]. apply good_app; [apply good_entry; exact Hc|exact IHk]. }
      destruct b; cbn [app]; [apply good_braces; exact He|rewrite app_nil_r; exact He].
    - rewrite toks_lst_b, toks_lst. cbn [app]. apply good_pars.
      induction IH as [|c l Hc _ IHl]; [apply good_nil|].
      unfold items. cbn [flat_map]. apply good_app; [apply Hc|exact IHl].
  Qed.

  Lemma good_entries kvs : good (entries kvs).
  Proof.
    induction kvs as [|kc kvs IH]; [apply good_nil|].
    unfold entries. cbn [flat_map]. apply good_app; [|exact IH].
    apply good_entry. intros b. apply good_tree.
  Qed.
  Lemma good_items l : good (items l).
  Proof.
    induction l as [|c l IH]; [apply good_nil|].
    unfold items. cbn [flat_map]. apply good_app; [apply good_tree|exact IH].
  Qed.

  Lemma items_nil l : items l = [] -> l = [].
  Proof.
    destruct l as [|c l]; [reflexivity|]. unfold items. cbn [flat_map]. intros H.
    apply app_eq_nil in H. destruct H as [H _]. destruct c; cbn in H; discriminate.
  Qed.

  (* levels of the statements and items *)
  Lemma lev_item_dict L d rest :
    levels_go L (toks_tree lt kt true (Dict d) ++ rest)
    = (L, t_lbrace) :: levels_go (L + 1) (entries d) ++ (L, t_rbrace) :: levels_go L rest.
  Proof.
    rewrite toks_dict. cbn [app]. rewrite <- app_assoc. cbn [app].
    rewrite lev_lbrace, levels_go_app, (g_net _ (good_entries d)), Z.add_0_r, lev_rbrace. reflexivity.
  Qed.
  Lemma lev_item_lst L l rest :
    levels_go L (toks_tree lt kt true (Lst l) ++ rest)
    = (L, t_lpar) :: levels_go (L + 1) (items l) ++ (L, t_rpar) :: levels_go L rest.
  Proof.
    rewrite toks_lst. cbn [app]. rewrite <- app_assoc. cbn [app].
    rewrite lev_lpar, levels_go_app, (g_net _ (good_items l)), Z.add_0_r, lev_rpar. reflexivity.
  Qed.
  Lemma lev_entry_leaf L k v rest :
    levels_go L (entry_toks (k, Leaf v) ++ rest)
    = (L, kt k) :: (L, lt v) :: (L, t_semi) :: levels_go L rest.
  Proof.
    unfold entry_toks. cbn [fst snd app].
    rewrite (lev_plain _ _ _ (plain_kt k)), (lev_plain _ _ _ (plain_lt v)), lev_semi. reflexivity.
  Qed.
  Lemma lev_entry_dict L k d rest :
    levels_go L (entry_toks (k, Dict d) ++ rest)
    = (L, kt k) :: (L, t_lbrace) :: levels_go (L + 1) (entries d) ++ (L, t_rbrace) :: levels_go L rest.
  Proof.
    replace (entry_toks (k, Dict d)) with (kt k :: toks_tree lt kt true (Dict d)).
    - cbn [app]. rewrite (lev_plain _ _ _ (plain_kt k)), lev_item_dict. reflexivity.
    - unfold entry_toks. cbn [fst snd]. rewrite !toks_dict. cbn [app]. rewrite app_nil_r. reflexivity.
  Qed.
  Lemma lev_entry_lst L k l rest :
    levels_go L (entry_toks (k, Lst l) ++ rest)
    = (L, kt k) :: (L, t_lpar) :: levels_go (L + 1) (items l) ++ (L, t_rpar) :: (L, t_semi) :: levels_go L rest.
  Proof.
    unfold entry_toks. cbn [fst snd]. cbn [app]. rewrite <- app_assoc.
    rewrite (lev_plain _ _ _ (plain_kt k)), lev_item_lst. cbn [app]. rewrite lev_semi. reflexivity.
  Qed.

  Lemma nc_kt k : nc (kt k).
  Proof. destruct (plain_inv _ (plain_kt k)) as (_ & _ & _ & A & _). exact A. Qed.

  Definition dict_spec (kvs : list (key * tree)) : Prop :=
    forall L (pre tail : list ztok) acc f (ts : list ztok) ti,
    ts = pre ++ levels_go L (entries kvs) ++ tail -> ti = Z.of_nat (length pre) ->
    pre_ok pre -> tail_ok tail ->
    (length (entries kvs) + length tail + 4 <= f)%nat ->
    keys_nodup (map fst acc ++ map fst kvs) = true ->
    forallb (fun kc => wf (snd kc)) kvs = true ->
    parse_dict_go f ts ti acc = Ok (acc ++ map mkv kvs).

  Definition list_spec (l : list tree) : Prop :=
    forall L f (ts : list ztok),
    ts = (L, t_lpar) :: levels_go (L + 1) (items l) ++ [(L, t_rpar)] ->
    (length (items l) + 2 + 4 <= f)%nat -> forallb wf l = true ->
    parse_list_go f ts 0 L [] = Ok (map (map_leaves nv) l).

  Definition items_spec (l : list tree) : Prop :=
    forall L (pre : list ztok) acc f (ts : list ztok) ti,
    ts = pre ++ levels_go (L + 1) (items l) ++ [(L, t_rpar)] -> ti = Z.of_nat (length pre) ->
    (length (items l) + 1 + 4 <= f)%nat -> forallb wf l = true ->
    parse_list_go f ts ti L acc = Ok (rev acc ++ map (map_leaves nv) l).

  Definition P (t : tree) : Prop :=
    match t with Leaf _ => True | Dict kvs => dict_spec kvs | Lst l => list_spec l end.

  Ltac norm_in H := repeat (first [rewrite <- app_assoc in H | progress cbn [app] in H]).
  Ltac fuel f Hf := destruct f as [|f]; [exfalso; cbn [length] in Hf; lia|].

  Lemma dict_loop kvs : Forall (fun kc => P (snd kc)) kvs -> dict_spec kvs.
  Proof.
    induction 1 as [|[k c] kvs Hc Hall IH]; intros L pre tail acc f ts ti Hts Hti Hpre Htail Hf Hnd Hwf.
    - cbn [entries flat_map levels_go app] in Hts. cbn [map]. rewrite app_nil_r.
      destruct Htail as [->|[l ->]].
      + fuel f Hf. apply pd_end. apply py_nth_end. len_eq.
      + fuel f Hf. fuel f Hf.
        rewrite (pd_skip (S f) ts ti acc l []); [| |lia|reflexivity..].
        * apply pd_end. apply py_nth_end. len_eq.
        * apply py_nth_split with (a := pre) (b := []); [exact Hts|exact Hti].
    - assert (Hlen : length (entries ((k, c) :: kvs)) = (length (entry_toks (k, c)) + length (entries kvs))%nat).
      { unfold entries. cbn [flat_map]. apply app_length. }
      change (entries ((k, c) :: kvs)) with (entry_toks (k, c) ++ entries kvs) in Hts.
      cbn [map fst] in Hnd. cbn [forallb snd] in Hwf. apply andb_true_iff in Hwf. destruct Hwf as [Hwc Hwf].
      cbn [map]. unfold mkv at 1. cbn [fst snd].
      destruct (Hkt k) as [_ Hpk].
      cbn [snd] in Hc.
      destruct c as [v|d|l].
      + (* k v ; *)
        rewrite lev_entry_leaf in Hts. norm_in Hts.
        assert (Hel : length (entry_toks (k, Leaf v)) = 3%nat) by reflexivity.
        rewrite Hlen, Hel in Hf. clear Hlen Hel.
        do 6 (fuel f Hf).
        rewrite (pd_plain _ ts ti acc L (kt k)); [| |lia|apply plain_kt].
        2:{ rewrite Hts. apply (py_nth_off pre []). len_eq. }
        rewrite (pd_plain _ ts (ti + 1) acc L (lt v)); [| |lia|apply plain_lt].
        2:{ rewrite Hts. apply (py_nth_off pre [(L, kt k)]). len_eq. }
        rewrite (pd_kv f ts (ti + 1 + 1) acc L (kt k) (lt v) k (nv v)).
        * destruct (aset_step k (Leaf (nv v)) acc (map fst kvs) Hnd) as [Has Hnd'].
          rewrite Has.
          rewrite (IH L (pre ++ [(L, kt k); (L, lt v); (L, t_semi)]) tail (acc ++ [(k, Leaf (nv v))]) _ ts (ti + 1 + 1 + 1)).
          -- cbn [map_leaves]. rewrite <- app_assoc. reflexivity.
          -- list_eq.
          -- len_eq.
          -- right. exists (pre ++ [(L, kt k); (L, lt v)]), L, t_semi. split; [list_eq|left; reflexivity].
          -- exact Htail.
          -- lia.
          -- exact Hnd'.
          -- exact Hwf.
        * rewrite Hts. apply (py_nth_off pre [(L, kt k); (L, lt v)]). len_eq.
        * rewrite Hts. apply (py_nth_off pre [(L, kt k)]). len_eq.
        * rewrite Hts. apply (py_nth_off pre []). len_eq.
        * apply plain_kt.
        * apply plain_lt.
        * lia.
        * eapply stop3_of_pre; [exact Hpre|exact Hts|lia].
        * exact Hpk.
        * exact (proj2 (Hlt v)).
      + (* k { ... } *)
        rewrite lev_entry_dict in Hts. norm_in Hts.
        assert (Hel : length (entry_toks (k, Dict d)) = (length (entries d) + 3)%nat).
        { unfold entry_toks. cbn [fst snd]. rewrite toks_dict. cbn [app]. rewrite app_nil_r. len_eq. }
        rewrite Hlen, Hel in Hf. clear Hlen Hel.
        destruct (good_ge_nc (entries d) (L + 1) (good_entries d)) as [Hge Hncc].
        rewrite wf_dict in Hwc. apply andb_true_iff in Hwc. destruct Hwc as [Hnd_d Hwf_d].
        do 3 (fuel f Hf).
        rewrite (pd_plain _ ts ti acc L (kt k)); [| |lia|apply plain_kt].
        2:{ rewrite Hts. apply (py_nth_off pre []). len_eq. }
        assert (Hd : parse_dict_go (S f) (levels_go (L + 1) (entries d)) 0 [] = Ok (map mkv d)).
        { apply (Hc (L + 1) [] [] [] (S f)).
          - rewrite app_nil_r. reflexivity.
          - reflexivity.
          - left. reflexivity.
          - left. reflexivity.
          - cbn [length]. lia.
          - exact Hnd_d.
          - exact Hwf_d. }
        rewrite (pd_open_dict f ts pre (levels_go (L + 1) (entries d)) (levels_go L (entries kvs) ++ tail)
                   (ti + 1) acc L (kt k) k (map mkv d));
          [|exact Hts|lia|apply nc_kt|exact Hpk|exact Hge|exact Hncc|len_eq|exact Hd].
        destruct (aset_step k (Dict (map mkv d)) acc (map fst kvs) Hnd) as [Has Hnd'].
        rewrite Has. rewrite map_leaves_dict.
        rewrite (IH L (pre ++ (L, kt k) :: (L, t_lbrace) :: levels_go (L + 1) (entries d) ++ [(L, t_rbrace)])
                   tail (acc ++ [(k, Dict (map mkv d))]) _ ts
                   (ti + 1 + Z.of_nat (length (levels_go (L + 1) (entries d))) + 2)).
        * rewrite <- app_assoc. reflexivity.
        * list_eq.
        * len_eq.
        * right. exists (pre ++ (L, kt k) :: (L, t_lbrace) :: levels_go (L + 1) (entries d)), L, t_rbrace.
          split; [list_eq|right; reflexivity].
        * exact Htail.
        * lia.
        * exact Hnd'.
        * exact Hwf.
      + (* k ( ... ) ; *)
        rewrite lev_entry_lst in Hts. norm_in Hts.
        assert (Hel : length (entry_toks (k, Lst l)) = (length (items l) + 4)%nat).
        { unfold entry_toks. cbn [fst snd]. rewrite toks_lst. len_eq. }
        rewrite Hlen, Hel in Hf. clear Hlen Hel.
        destruct (good_ge_nc (items l) (L + 1) (good_items l)) as [Hge Hncc].
        rewrite wf_lst in Hwc.
        do 4 (fuel f Hf).
        rewrite (pd_plain _ ts ti acc L (kt k)); [| |lia|apply plain_kt].
        2:{ rewrite Hts. apply (py_nth_off pre []). len_eq. }
        rewrite (pd_open_list (S f) ts pre (levels_go (L + 1) (items l)) (levels_go L (entries kvs) ++ tail)
                   (ti + 1) acc L (kt k) k (map (map_leaves nv) l));
          [|exact Hts|lia|apply nc_kt|exact Hpk|exact Hge|len_eq| |].
        2:{ intros He. apply (f_equal (@length _)) in He. rewrite levels_go_length in He. cbn [length] in He.
            apply length_zero_iff_nil in He. apply items_nil in He. subst l. reflexivity. }
        2:{ intros _. apply (Hc L (S (S f))); [reflexivity|lia|exact Hwc]. }
        rewrite (pd_semi_rpar (S f) ts (ti + 1 + Z.of_nat (length (levels_go (L + 1) (items l))) + 2) _ L L).
        * destruct (aset_step k (Lst (map (map_leaves nv) l)) acc (map fst kvs) Hnd) as [Has Hnd'].
          rewrite Has. rewrite map_leaves_lst.
          rewrite (IH L (pre ++ (L, kt k) :: (L, t_lpar) :: levels_go (L + 1) (items l) ++ [(L, t_rpar); (L, t_semi)])
                     tail (acc ++ [(k, Lst (map (map_leaves nv) l))]) _ ts
                     (ti + 1 + Z.of_nat (length (levels_go (L + 1) (items l))) + 2 + 1)).
          -- rewrite <- app_assoc. reflexivity.
          -- list_eq.
          -- len_eq.
          -- right. exists (pre ++ (L, kt k) :: (L, t_lpar) :: levels_go (L + 1) (items l) ++ [(L, t_rpar)]), L, t_semi.
             split; [list_eq|left; reflexivity].
          -- exact Htail.
          -- lia.
          -- exact Hnd'.
          -- exact Hwf.
        * apply py_nth_split with (a := pre ++ (L, kt k) :: (L, t_lpar) :: levels_go (L + 1) (items l) ++ [(L, t_rpar)])
                                  (b := levels_go L (entries kvs) ++ tail); [list_eq|len_eq].
        * lia.
        * apply py_nth_split with (a := pre ++ (L, kt k) :: (L, t_lpar) :: levels_go (L + 1) (items l))
                                  (b := (L, t_semi) :: levels_go L (entries kvs) ++ tail); [list_eq|len_eq].
  Qed.

  Lemma list_loop l : Forall P l -> items_spec l.
  Proof.
    induction 1 as [|c l Hc Hall IH]; intros L pre acc f ts ti Hts Hti Hf Hwf.
    - cbn [items flat_map levels_go app] in Hts. cbn [map]. rewrite app_nil_r.
      fuel f Hf. fuel f Hf.
      rewrite (pl_rpar (S f) ts ti L acc L); [| |lia].
      + apply pl_end. apply py_nth_end. len_eq.
      + apply py_nth_split with (a := pre) (b := []); [exact Hts|exact Hti].
    - assert (Hlen : length (items (c :: l)) = (length (toks_tree lt kt true c) + length (items l))%nat).
      { unfold items. cbn [flat_map]. apply app_length. }
      change (items (c :: l)) with (toks_tree lt kt true c ++ items l) in Hts.
      cbn [forallb] in Hwf. apply andb_true_iff in Hwf. destruct Hwf as [Hwc Hwf].
      cbn [map].
      destruct c as [v|d|l'].
      + (* scalar item *)
        rewrite toks_leaf in Hts. cbn [app] in Hts. rewrite (lev_plain _ _ _ (plain_lt v)) in Hts. norm_in Hts.
        fuel f Hf.
        rewrite (pl_leaf f ts ti L acc (L + 1) (lt v) (nv v)); [| |lia|apply plain_lt|exact (proj2 (Hlt v))].
        2:{ rewrite Hts. apply (py_nth_off pre []). len_eq. }
        rewrite (IH L (pre ++ [(L + 1, lt v)]) (Leaf (nv v) :: acc) f ts (ti + 1)).
        * cbn [rev map_leaves]. rewrite <- app_assoc. reflexivity.
        * list_eq.
        * len_eq.
        * rewrite Hlen in Hf. cbn [toks_tree length] in Hf. lia.
        * exact Hwf.
      + (* dict item *)
        rewrite lev_item_dict in Hts. norm_in Hts.
        assert (Hel : length (toks_tree lt kt true (Dict d)) = (length (entries d) + 2)%nat).
        { rewrite toks_dict. len_eq. }
        rewrite Hlen, Hel in Hf. clear Hlen Hel.
        destruct (good_ge_nc (entries d) (L + 1 + 1) (good_entries d)) as [Hge Hncc].
        rewrite wf_dict in Hwc. apply andb_true_iff in Hwc. destruct Hwc as [Hnd_d Hwf_d].
        cbn [P] in Hc.
        do 2 (fuel f Hf).
        assert (Hd : parse_dict_go (S f) (levels_go (L + 1 + 1) (entries d)) 0 [] = Ok (map mkv d)).
        { apply (Hc (L + 1 + 1) [] [] [] (S f)).
          - rewrite app_nil_r. reflexivity.
          - reflexivity.
          - left. reflexivity.
          - left. reflexivity.
          - cbn [length]. lia.
          - exact Hnd_d.
          - exact Hwf_d. }
        rewrite (pl_open_dict f ts pre (levels_go (L + 1 + 1) (entries d)) (levels_go (L + 1) (items l) ++ [(L, t_rpar)])
                   ti L acc (L + 1) (map mkv d));
          [|exact Hts|exact Hti|lia|exact Hge|exact Hncc|len_eq|exact Hd].
        rewrite map_leaves_dict.
        rewrite (IH L (pre ++ (L + 1, t_lbrace) :: levels_go (L + 1 + 1) (entries d) ++ [(L + 1, t_rbrace)])
                   (Dict (map mkv d) :: acc) _ ts
                   (ti + Z.of_nat (length (levels_go (L + 1 + 1) (entries d))) + 2)).
        * cbn [rev]. rewrite <- app_assoc. reflexivity.
        * list_eq.
        * len_eq.
        * lia.
        * exact Hwf.
      + (* list item *)
        rewrite lev_item_lst in Hts. norm_in Hts.
        assert (Hel : length (toks_tree lt kt true (Lst l')) = (length (items l') + 2)%nat).
        { rewrite toks_lst. len_eq. }
        rewrite Hlen, Hel in Hf. clear Hlen Hel.
        destruct (good_ge_nc (items l') (L + 1 + 1) (good_items l')) as [Hge Hncc].
        rewrite wf_lst in Hwc.
        cbn [P] in Hc.
        do 2 (fuel f Hf).
        rewrite (pl_open_list f ts pre (levels_go (L + 1 + 1) (items l')) (levels_go (L + 1) (items l) ++ [(L, t_rpar)])
                   ti L acc (L + 1) (map (map_leaves nv) l'));
          [|exact Hts|exact Hti|lia|exact Hge|len_eq| |].
        2:{ intros He. apply (f_equal (@length _)) in He. rewrite levels_go_length in He. cbn [length] in He.
            apply length_zero_iff_nil in He. apply items_nil in He. subst l'. reflexivity. }
        2:{ intros _. apply (Hc (L + 1) (S f)); [reflexivity|lia|exact Hwc]. }
        rewrite map_leaves_lst.
        rewrite (IH L (pre ++ (L + 1, t_lpar) :: levels_go (L + 1 + 1) (items l') ++ [(L + 1, t_rpar)])
                   (Lst (map (map_leaves nv) l') :: acc) _ ts
                   (ti + Z.of_nat (length (levels_go (L + 1 + 1) (items l'))) + 2)).
        * cbn [rev]. rewrite <- app_assoc. reflexivity.
        * list_eq.
        * len_eq.
        * lia.
        * exact Hwf.
  Qed.

  Lemma P_all : forall t, P t.
  Proof.
    induction t as [v|kvs IH|l IH] using tree_ind'.
    - exact I.
    - cbn [P]. apply dict_loop. exact IH.
    - cbn [P]. intros L f ts Hts Hf Hwf.
      fuel f Hf.
      rewrite (pl_lpar f ts 0 L []); [| |lia].
      + rewrite (list_loop l IH L [(L, t_lpar)] [] f ts (0 + 1)).
        * reflexivity.
        * exact Hts.
        * reflexivity.
        * lia.
        * exact Hwf.
      + rewrite Hts. reflexivity.
  Qed.

  Theorem tok_roundtrip_main kvs :
    wf (Dict kvs) = true ->
    parse_tokens (toks_doc lt kt kvs) = Ok (kvs_of (map_leaves nv (Dict kvs))).
  Proof.
    intros Hwf. rewrite wf_dict in Hwf. apply andb_true_iff in Hwf. destruct Hwf as [Hnd Hwf].
    rewrite map_leaves_dict. cbn [kvs_of].
    unfold parse_tokens, toks_doc, levels. rewrite toks_dict. cbn [app]. rewrite app_nil_r.
    rewrite levels_go_app, (g_net _ (good_entries kvs)).
    change (levels_go (0 + 0) [[]]) with [(0, @nil N)].
    apply (P_all (Dict kvs) 0 [] [(0, [])] []).
    - reflexivity.
    - reflexivity.
    - left. reflexivity.
    - right. exists 0. reflexivity.
    - rewrite app_length, levels_go_length. cbn [length]. lia.
    - exact Hnd.
    - exact Hwf.
  Qed.
End Main.

Lemma tok_roundtrip : forall (lt : scalar -> str) (kt : key -> str) (nv : scalar -> scalar) kvs,
  (forall v, plain_token (lt v) = true /\ parse_value (lt v) = Ok (nv v)) ->
  (forall k, plain_token (kt k) = true /\ parse_key (kt k) = Ok k) ->
  wf (Dict kvs) = true ->
  parse_tokens (toks_doc lt kt kvs) = Ok (kvs_of (map_leaves nv (Dict kvs))).
Proof.
  intros lt kt nv kvs Hlt Hkt Hwf. exact (tok_roundtrip_main lt kt nv Hlt Hkt kvs Hwf).
Qed.
Print Assumptions tok_roundtrip.
