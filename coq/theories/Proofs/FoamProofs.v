(* C10: FoamFormatter.to_string followed by NativeParser.parse_string (the reader of .foam files) returns the dict
   without its underscore keys, every leaf as the classifier reads the content of its written form.

   Route: after strip_us the tree is in the native writer domain (simple keys, string leaves free of double quotes).
   The Foam text is the SAME abstract body as the native text (E2EFullProofs.abody: quoted leaves are holes), filled
   with the double-quoted literals dq s where the native writer fills in format_string s (sq s or dq s).  The literal
   scanner replaces either filling by the same placeholders and registers the same contents, so the lexer returns the
   same result on both texts, and parse_string is a function of the lexer's result: the native round trip
   (E2EFullProofs.roundtrip_native_partial) carries over.

   The scan is replayed with a trace (scan_trace: the lexer's scan_literals, additionally recording the quote flavour
   of every literal it registers); on a Foam text every registered literal is double-quoted.

   C09: JSON front end = native round trip on trees whose leaves the classifier does not re-type. *)
From Coq Require Import String.
From Coq Require Import NArith ZArith List Bool Lia ZifyBool ZifyN ZifyNat.
From DictIO Require Import Chars Str Value Scalar KeyPath SDict Layout Lexer TokParser Reader TreeSpec NativeSpec LayoutSpec E2ESpec.
From DictIO Require ScalarProofs SDictProofs TokProofs LayoutProofs SemProofs QuoteProofs KeyPathProofs.
From DictIO Require Import E2EProofs E2EHoles E2EInsert E2EKeyTok E2EFullProofs.
Import ListNotations.
Import LayoutProofs.
Open Scope N_scope.

(* ================================================================================================ *)
(* 1. the Foam writer domain                                                                        *)
(* ================================================================================================ *)

Notation FFS := foam_format_scalar.

(* a leaf of the native writer domain whose string (if it is one) has no double-quote character *)
Definition foam_leaf (v : scalar) : bool :=
  writable_leaf v && match v with SStr s => no_dq s | _ => true end.

(* like writable_tree; a key that starts with an underscore is dropped by the writer together with its value, which
   therefore is unconstrained; every other key is a simple key *)
Fixpoint foam_writable_tree (t : tree) : bool :=
  match t with
  | Leaf v => foam_leaf v
  | Dict kvs => (fix go (l : list (key * tree)) : bool :=
                   match l with
                   | [] => true
                   | (k, c) :: l' => (us_key k || (simple_key k && foam_writable_tree c)) && go l'
                   end) kvs
  | Lst ts => (fix go (l : list tree) : bool :=
                 match l with [] => true | c :: l' => foam_writable_tree c && go l' end) ts
  end.

(* the leaf as the classifier reads the CONTENT of its Foam-written form back (the analogue of written_value) *)
Definition foam_written_value (v : scalar) : scalar :=
  match parse_value (remove_quotes (FFS v)) with Ok x => x | Raise _ => v end.

Lemma fw_dict_cons k c kvs :
  foam_writable_tree (Dict ((k, c) :: kvs)) =
  (us_key k || (simple_key k && foam_writable_tree c)) && foam_writable_tree (Dict kvs).
Proof. reflexivity. Qed.
Lemma fw_lst_cons c l : foam_writable_tree (Lst (c :: l)) = foam_writable_tree c && foam_writable_tree (Lst l).
Proof. reflexivity. Qed.

Lemma strip_kvs_cons k c l :
  QuoteProofs.strip_kvs ((k, c) :: l) =
  if us_key k then QuoteProofs.strip_kvs l else (k, strip_us c) :: QuoteProofs.strip_kvs l.
Proof. reflexivity. Qed.

(* after strip_us all keys are simple and all leaves are Foam leaves *)
Lemma foam_strip_ktree : forall t, foam_writable_tree t = true -> ktree foam_leaf (strip_us t) = true.
Proof.
  induction t as [v|kvs IH|ts IH] using tree_ind'; intros H.
  - exact H.
  - rewrite QuoteProofs.strip_us_dict. induction IH as [|[k c] kvs Hc _ IHk]; [reflexivity|].
    rewrite fw_dict_cons in H. apply andb_true_iff in H. destruct H as [H1 H2]. cbn [snd] in Hc.
    rewrite strip_kvs_cons. destruct (us_key k) eqn:Eu; [exact (IHk H2)|].
    cbn [orb] in H1. apply andb_true_iff in H1. destruct H1 as [Hk Hcc].
    rewrite ktree_dict_cons, Hk, (Hc Hcc), (IHk H2). reflexivity.
  - rewrite QuoteProofs.strip_us_lst. induction IH as [|c l Hc _ IHl]; [reflexivity|].
    rewrite fw_lst_cons in H. apply andb_true_iff in H. destruct H as [H1 H2].
    cbn [map]. rewrite ktree_lst_cons, (Hc H1), (IHl H2). reflexivity.
Qed.

Lemma ktree_mono (ok1 ok2 : scalar -> bool) : (forall v, ok1 v = true -> ok2 v = true) ->
  forall t, ktree ok1 t = true -> ktree ok2 t = true.
Proof.
  intros Hm. induction t as [v|kvs IH|ts IH] using tree_ind'; intros H.
  - exact (Hm v H).
  - induction IH as [|[k c] kvs Hc _ IHk]; [reflexivity|].
    rewrite ktree_dict_cons in *. apply andb_true_iff in H. destruct H as [H H3].
    apply andb_true_iff in H. destruct H as [H1 H2]. cbn [snd] in Hc. rewrite H1, (Hc H2), (IHk H3). reflexivity.
  - induction IH as [|c l Hc _ IHl]; [reflexivity|].
    rewrite ktree_lst_cons in *. apply andb_true_iff in H. destruct H as [H1 H2]. rewrite (Hc H1), (IHl H2). reflexivity.
Qed.

Lemma foam_leaf_writable v : foam_leaf v = true -> writable_leaf v = true.
Proof. unfold foam_leaf. intros H. apply andb_true_iff in H. exact (proj1 H). Qed.

(* ---- strip_us keeps well-formedness ---------------------------------------------------------------- *)
Lemma strip_keys_sub k : forall l,
  existsb (key_eqb k) (map fst (QuoteProofs.strip_kvs l)) = true -> existsb (key_eqb k) (map fst l) = true.
Proof.
  induction l as [|[k' c] l IH]; intros H; [exact H|].
  rewrite strip_kvs_cons in H. cbn [map fst existsb]. destruct (us_key k').
  - rewrite (IH H). apply orb_true_r.
  - cbn [map fst existsb] in H. apply orb_true_iff in H. destruct H as [H|H]; [rewrite H; reflexivity|].
    rewrite (IH H). apply orb_true_r.
Qed.

Lemma wf_strip_us : forall t, wf t = true -> wf (strip_us t) = true.
Proof.
  induction t as [v|kvs IH|ts IH] using tree_ind'; intros H.
  - reflexivity.
  - rewrite QuoteProofs.strip_us_dict. rewrite KeyPathProofs.wf_dict in *.
    induction IH as [|[k c] kvs Hc _ IHk]; [reflexivity|].
    cbn [map fst keys_nodup forallb snd] in H. cbn [snd] in Hc.
    apply andb_true_iff in H. destruct H as [Hn Hf]. apply andb_true_iff in Hn. destruct Hn as [Hn1 Hn2].
    apply andb_true_iff in Hf. destruct Hf as [Hf1 Hf2].
    assert (Hrest : keys_nodup (map fst kvs) && forallb (fun kv => wf (snd kv)) kvs = true)
      by (rewrite Hn2, Hf2; reflexivity).
    specialize (IHk Hrest). rewrite strip_kvs_cons. destruct (us_key k); [exact IHk|].
    apply andb_true_iff in IHk. destruct IHk as [I1 I2].
    cbn [map fst keys_nodup forallb snd]. rewrite I1, I2, (Hc Hf1), !andb_true_r.
    apply negb_true_iff. apply negb_true_iff in Hn1.
    destruct (existsb (key_eqb k) (map fst (QuoteProofs.strip_kvs kvs))) eqn:E; [|reflexivity].
    rewrite (strip_keys_sub k kvs E) in Hn1. discriminate Hn1.
  - rewrite QuoteProofs.strip_us_lst. rewrite KeyPathProofs.wf_lst in *.
    induction IH as [|c l Hc _ IHl]; [reflexivity|].
    cbn [forallb] in H. apply andb_true_iff in H. destruct H as [H1 H2].
    cbn [map forallb]. rewrite (Hc H1), (IHl H2). reflexivity.
Qed.

(* ---- strip_us only removes quoted leaves --------------------------------------------------------- *)
Lemma nq_strip_us : forall t, (nq (strip_us t) <= nq t)%nat.
Proof.
  induction t as [v|kvs IH|ts IH] using tree_ind'.
  - apply Nat.le_refl.
  - rewrite QuoteProofs.strip_us_dict. induction IH as [|[k c] kvs Hc _ IHk]; [apply Nat.le_refl|].
    cbn [snd] in Hc. rewrite strip_kvs_cons, nq_dict_cons. destruct (us_key k); [lia|].
    rewrite nq_dict_cons. lia.
  - rewrite QuoteProofs.strip_us_lst. induction IH as [|c l Hc _ IHl]; [apply Nat.le_refl|].
    cbn [map]. rewrite !nq_lst_cons. lia.
Qed.

Lemma quoted_within_strip_us : forall t b, quoted_within b t = true -> quoted_within b (strip_us t) = true.
Proof.
  unfold quoted_within.
  induction t as [v|kvs IH|ts IH] using tree_ind'; intros b H.
  - exact H.
  - rewrite QuoteProofs.strip_us_dict. rewrite lw_dict in *.
    induction IH as [|[k c] kvs Hc _ IHk]; [reflexivity|].
    cbn [forallb snd] in H. apply andb_true_iff in H. destruct H as [H1 H2]. cbn [snd] in Hc.
    rewrite strip_kvs_cons. destruct (us_key k); [exact (IHk H2)|].
    cbn [forallb snd]. rewrite (Hc _ H1), (IHk H2). reflexivity.
  - rewrite QuoteProofs.strip_us_lst. rewrite lw_lst in *.
    induction IH as [|c l Hc _ IHl]; [reflexivity|].
    cbn [forallb] in H. apply andb_true_iff in H. destruct H as [H1 H2].
    cbn [map forallb]. rewrite (Hc _ H1), (IHl H2). reflexivity.
Qed.

(* ================================================================================================ *)
(* 2. what the Foam writer makes of a leaf and of a key                                             *)
(* ================================================================================================ *)

Lemma simple_string_bare s : simple_tok (format_string s) = true ->
  format_string s = s /\ foam_format_string s = s.
Proof.
  intros E. destruct (simple_tok_inv _ E) as (_ & Hc & _).
  unfold format_string, foam_format_string in *.
  destruct (classify_string s); try (split; reflexivity); exfalso;
    unfold sq, dq in Hc; cbn [forallb] in Hc; discriminate Hc.
Qed.

Lemma foam_leaf_cases v : foam_leaf v = true ->
  (simple_leaf v = true /\ FFS v = FS v) \/
  (simple_leaf v = false /\ exists s, v = SStr s /\ qlit s /\ no_dq s = true /\ FFS v = dq s).
Proof.
  unfold foam_leaf. intros H. apply andb_true_iff in H. destruct H as [Hw Hd].
  destruct (writable_leaf_cases v Hw) as [E|(E & s & -> & Hq)].
  - left. split; [exact E|]. destruct v as [z|l|b| |s]; try reflexivity.
    unfold simple_leaf in E. cbn [FS FFS] in *. destruct (simple_string_bare s E) as [A B]. rewrite A, B. reflexivity.
  - right. split; [exact E|]. exists s. split; [reflexivity|]. split; [exact Hq|]. split; [exact Hd|].
    cbn [FFS]. destruct (qlit_form s Hq) as (Hdol & Hform).
    unfold no_dq in Hd. apply negb_true_iff in Hd.
    unfold foam_format_string, classify_string. rewrite Hdol, Hd.
    destruct (nonempty s) eqn:En; cbn [negb]; [|reflexivity].
    destruct (has_char c_sq s) eqn:Es; [reflexivity|].
    destruct (existsb is_struct_char s) eqn:Em; [reflexivity|]. exfalso.
    unfold format_string, classify_string in Hform. rewrite Hdol, Hd, En, Es, Em in Hform. cbn [negb] in Hform.
    destruct Hform as [[A _]|[A _]]; exact (not_self_wrapped _ s A).
Qed.

Lemma foam_leaf_width v : foam_leaf v = true -> length (FFS v) = llw v.
Proof.
  intros H. unfold llw. destruct (foam_leaf_cases v H) as [(_ & ->)|(_ & s & -> & Hq & _ & ->)]; [reflexivity|].
  cbn [FS]. destruct (qlit_form s Hq) as (_ & [[-> _]|[-> _]]); unfold sq, dq; cbn [length]; rewrite !app_length; reflexivity.
Qed.

Lemma foam_key_simple k : simple_key k = true -> foam_key_text k = FK k.
Proof.
  intros Hk. destruct (simple_key_inv k Hk) as (Ht & _). destruct k as [z|s]; [reflexivity|].
  cbn [FK foam_key_text] in *. destruct (simple_string_bare s Ht) as [A B]. rewrite A, B. reflexivity.
Qed.

(* ================================================================================================ *)
(* 3. fmt_tree with any leaf / key rendering is gfmt when the widths and the keys agree             *)
(* ================================================================================================ *)

Section AnyFmt.
  Variable fmt : scalar -> str.
  Variable fmtk : key -> str.

  Section ALoops.
    Variable level : nat.
    Fixpoint aentries (l : list (key * tree)) : str :=
      match l with
      | [] => []
      | (k, c) :: l' =>
          match c with
          | Dict _ =>
              line level (key_text k) true ++ line level [c_lbrace] true ++
              fmt_tree fmt fmtk (S level) false c ++ line level [c_rbrace] true
          | Lst _ => line level (key_text k) true ++ fmt_tree fmt fmtk level false c
          | Leaf v =>
              let skey := fmtk k in
              let value := fmt v in
              line level (skey ++ spaces (Nat.max 8 (30 - length skey - 4 * level)) ++ value ++ [c_semi]) true
          end ++ aentries l'
      end.
    Variable len : nat.
    Fixpoint aitems (l : list tree) (idx : nat) (first : bool) : str :=
      match l with
      | [] => []
      | c :: l' =>
          match c with
          | Lst _ => fmt_tree fmt fmtk (S level) true c ++ aitems l' (S idx) first
          | Dict _ =>
              line (S level) [] true ++ line (S level) [c_lbrace] true ++
              fmt_tree fmt fmtk (S (S level)) false c ++ line (S level) [c_rbrace] true ++
              aitems l' (S idx) true
          | Leaf v =>
              let (s, first') := list_item fmt level first idx len v in
              s ++ aitems l' (S idx) first'
          end
      end.
  End ALoops.

  Lemma afmt_dict level anc kvs : fmt_tree fmt fmtk level anc (Dict kvs) = aentries level kvs.
  Proof. reflexivity. Qed.
  Lemma afmt_lst level anc ts :
    fmt_tree fmt fmtk level anc (Lst ts) =
    line level [c_lpar] true ++ aitems level (length ts) ts 0%nat true ++
    line level (if anc then [c_rpar] else [c_rpar; c_semi]) true.
  Proof. reflexivity. Qed.

  Variable ok : scalar -> bool.
  Hypothesis Hwidth : forall v, ok v = true -> length (fmt v) = llw v.
  Hypothesis Hkey : forall k, simple_key k = true -> fmtk k = FK k.

  Lemma afmt_gfmt : forall t, ktree ok t = true -> forall level anc,
    fmt_tree fmt fmtk level anc t = gfmt fmt llw level anc t.
  Proof.
    induction t as [v|kvs IH|ts IH] using tree_ind'; intros H level anc.
    - reflexivity.
    - rewrite afmt_dict, gfmt_dict. revert level.
      induction IH as [|[k c] kvs Hc _ IHk]; intros level; [reflexivity|].
      rewrite ktree_dict_cons in H. apply andb_true_iff in H. destruct H as [H H3].
      apply andb_true_iff in H. destruct H as [H1 H2]. cbn [snd] in Hc.
      cbn [aentries gentries]. rewrite (IHk H3 level). f_equal.
      destruct c as [v|d|ts'].
      + cbn zeta. rewrite (Hkey k H1). reflexivity.
      + rewrite (Hc H2 (S level) false). reflexivity.
      + rewrite (Hc H2 level false). reflexivity.
    - rewrite afmt_lst, gfmt_lst. f_equal. f_equal. generalize (length ts) as len. generalize 0%nat as idx.
      generalize true as first.
      induction IH as [|c l Hc _ IHl]; intros first idx len; [reflexivity|].
      rewrite ktree_lst_cons in H. apply andb_true_iff in H. destruct H as [H1 H2].
      cbn [aitems gitems]. destruct c as [v|d|ts'].
      + cbn [ktree] in H1. unfold list_item, glist_item. cbv zeta. rewrite (Hwidth v H1).
        destruct (Nat.eqb (Nat.modulo (S idx) 10) 0 || Nat.eqb (S idx) len); rewrite (IHl H2); reflexivity.
      + rewrite (Hc H1 (S (S level)) false), (IHl H2). reflexivity.
      + rewrite (Hc H1 (S level) true), (IHl H2). reflexivity.
  Qed.
End AnyFmt.

(* ================================================================================================ *)
(* 4. the written body is the abstract body filled with the written literals, for any writer that   *)
(*    agrees with the native one on bare leaves                                                     *)
(* ================================================================================================ *)

Section AnyFill.
  Variable wr : scalar -> str.        (* the writer's leaf text *)
  Variable fill : str -> str.         (* how it writes a string that needs quotes *)
  Variable ok : scalar -> bool.
  Hypothesis Hok : forall v, ok v = true ->
    (simple_leaf v = true /\ wr v = FS v) \/ (simple_leaf v = false /\ exists s, v = SStr s /\ wr v = fill s).

  Definition WdA (t : tree) : Prop :=
    ktree ok t = true -> forall level anc R Y,
    expandL (map fill (qstrs t) ++ R) (gfmt lfa llw level anc t ++ Y) = gfmt wr llw level anc t ++ expandL R Y.

  Lemma WdA_leaf_txt v (X Z : list N) R Y : ok v = true ->
    forallb tchar X = true -> forallb tchar Z = true ->
    expandL (map fill (qstr v) ++ R) (X ++ lfa v ++ Z ++ Y) = X ++ wr v ++ Z ++ expandL R Y.
  Proof.
    intros Hv HX HZ. unfold qstr, lfa.
    destruct (Hok v Hv) as [(E & Ew)|(E & s & -> & Ew)]; rewrite E, Ew.
    - cbn [map app]. rewrite (exp_plain _ X _ HX), (exp_plain _ (FS v)) by (apply simple_tok_tchars; exact E).
      rewrite (exp_plain _ Z _ HZ). reflexivity.
    - cbn [map app]. rewrite (exp_plain _ X _ HX). rewrite expandL_hole, (exp_plain _ Z _ HZ). reflexivity.
  Qed.

  Lemma WdA_entries kvs : Forall (fun kc => WdA (snd kc)) kvs -> ktree ok (Dict kvs) = true ->
    forall level R Y,
    expandL (map fill (qstrs (Dict kvs)) ++ R) (gentries lfa llw level kvs ++ Y) =
    gentries wr llw level kvs ++ expandL R Y.
  Proof.
    induction 1 as [|[k c] kvs Hc _ IH]; intros Hs level R Y; [reflexivity|].
    rewrite ktree_dict_cons in Hs. apply andb_true_iff in Hs. destruct Hs as [Hs Hs3].
    apply andb_true_iff in Hs. destruct Hs as [Hs1 Hs2].
    destruct (simple_key_text k Hs1) as [Hkx Hkc].
    cbn [snd] in Hc. specialize (Hc Hs2).
    rewrite qstrs_dict_cons, map_app, <- app_assoc. cbn [gentries].
    destruct c as [v|d|ts].
    - cbn zeta. cbn [qstrs ktree] in *. unfold line, indent_of. rewrite <- !app_assoc.
      rewrite (app_assoc (spaces (4 * level)) (FK k)), (app_assoc (spaces (4 * level) ++ FK k)).
      rewrite (app_assoc (spaces (4 * level)) (FK k)), (app_assoc (spaces (4 * level) ++ FK k)).
      change ([c_semi] ++ [c_lf] ++ ?x) with ([c_semi; c_lf] ++ x).
      rewrite (WdA_leaf_txt v _ [c_semi; c_lf] _ _ Hs2).
      + rewrite (IH Hs3). reflexivity.
      + apply tc_app; [apply tc_app; [apply tc_spaces|exact Hkc]|apply tc_spaces].
      + reflexivity.
    - rewrite Hkx. rewrite <- !app_assoc.
      rewrite (exp_plain _ (line level (FK k) true)) by (apply tc_line; exact Hkc).
      rewrite (exp_plain _ (line level [c_lbrace] true)) by (apply tc_line; reflexivity).
      rewrite (Hc (S level) false). rewrite (exp_plain _ (line level [c_rbrace] true)) by (apply tc_line; reflexivity).
      rewrite (IH Hs3). reflexivity.
    - rewrite Hkx. rewrite <- !app_assoc.
      rewrite (exp_plain _ (line level (FK k) true)) by (apply tc_line; exact Hkc).
      rewrite (Hc level false). rewrite (IH Hs3). reflexivity.
  Qed.

  Lemma WdA_items ts : Forall WdA ts -> ktree ok (Lst ts) = true ->
    forall level len idx first R Y,
    expandL (map fill (qstrs (Lst ts)) ++ R) (gitems lfa llw level len ts idx first ++ Y) =
    gitems wr llw level len ts idx first ++ expandL R Y.
  Proof.
    induction 1 as [|c l Hc _ IH]; intros Hs level len idx first R Y; [reflexivity|].
    rewrite ktree_lst_cons in Hs. apply andb_true_iff in Hs. destruct Hs as [Hs1 Hs2].
    specialize (Hc Hs1). rewrite qstrs_lst_cons, map_app, <- app_assoc. cbn [gitems].
    destruct c as [v|d|ts'].
    - destruct (glist_item_cases llw level first idx len v) as (lv & pad & nl & f' & E). rewrite !E.
      cbn [qstrs ktree] in *. unfold line, indent_of. rewrite <- !app_assoc.
      rewrite (WdA_leaf_txt v (spaces (4 * S lv)) (spaces pad) _ _ Hs1 (tc_spaces _) (tc_spaces _)).
      rewrite (exp_plain _ (if nl then [c_lf] else [])) by (destruct nl; reflexivity).
      rewrite (IH Hs2). reflexivity.
    - rewrite <- !app_assoc.
      rewrite (exp_plain _ (line (S level) [] true)) by (apply tc_line; reflexivity).
      rewrite (exp_plain _ (line (S level) [c_lbrace] true)) by (apply tc_line; reflexivity).
      rewrite (Hc (S (S level)) false).
      rewrite (exp_plain _ (line (S level) [c_rbrace] true)) by (apply tc_line; reflexivity).
      rewrite (IH Hs2). reflexivity.
    - rewrite <- !app_assoc. rewrite (Hc (S level) true). rewrite (IH Hs2). reflexivity.
  Qed.

  Lemma WdA_all : forall t, WdA t.
  Proof.
    induction t as [v|kvs IH|ts IH] using tree_ind'; intros Hs level anc R Y.
    - cbn [gfmt qstrs ktree] in *.
      pose proof (WdA_leaf_txt v [] [] R Y Hs eq_refl eq_refl) as H. cbn [app] in H. exact H.
    - rewrite !gfmt_dict. apply WdA_entries; assumption.
    - rewrite !gfmt_lst. rewrite <- !app_assoc.
      rewrite (exp_plain _ (line level [c_lpar] true)) by (apply tc_line; reflexivity).
      rewrite (WdA_items ts IH Hs).
      rewrite (exp_plain _ (line level _ true)) by (apply tc_line; destruct anc; reflexivity).
      reflexivity.
  Qed.
End AnyFill.

Lemma foam_fill_ok v : foam_leaf v = true ->
  (simple_leaf v = true /\ FFS v = FS v) \/ (simple_leaf v = false /\ exists s, v = SStr s /\ FFS v = dq s).
Proof.
  intros H. destruct (foam_leaf_cases v H) as [A|(E & s & Ev & _ & _ & Ew)]; [left; exact A|right].
  split; [exact E|]. exists s. split; assumption.
Qed.

(* the Foam body of a stripped tree: the native abstract body with every hole filled by a double-quoted literal *)
Definition ffill (kvs : list (key * tree)) : list (list N) := map dq (qstrs (Dict kvs)).

Lemma foam_body_filled kvs : ktree foam_leaf (Dict kvs) = true ->
  foam_body kvs = expandL (ffill kvs) (abody kvs).
Proof.
  intros Hs. unfold foam_body. rewrite (sort_top_keys kvs (ktree_dict_keys _ kvs Hs)).
  change (fun k : key => match k with KI z => Z_to_dec z | KS s => foam_format_string s end) with foam_key_text.
  rewrite (afmt_gfmt FFS foam_key_text foam_leaf foam_leaf_width foam_key_simple (Dict kvs) Hs).
  pose proof (WdA_all FFS dq foam_leaf foam_fill_ok (Dict kvs) Hs 0%nat false [] []) as H. rewrite !app_nil_r in H.
  rewrite !gfmt_dict in H. unfold ffill, abody. rewrite H. apply gfmt_dict.
Qed.

(* the strings the Foam writer quotes *)
Definition flit (s : list N) : Prop := qlit s /\ no_dq s = true.

Lemma qstrs_flit : forall t, ktree foam_leaf t = true -> Forall flit (qstrs t).
Proof.
  induction t as [v|kvs IH|ts IH] using tree_ind'; intros H.
  - cbn [ktree] in H. cbn [qstrs]. unfold qstr.
    destruct (foam_leaf_cases v H) as [(E & _)|(E & s & -> & Hs & Hd & _)]; rewrite E; [constructor|].
    constructor; [split; assumption|constructor].
  - induction IH as [|[k c] kvs Hc _ IHk]; [constructor|].
    rewrite ktree_dict_cons in H. apply andb_true_iff in H. destruct H as [H H3].
    apply andb_true_iff in H. destruct H as [_ H2]. rewrite qstrs_dict_cons. apply Forall_app.
    split; [exact (Hc H2)|exact (IHk H3)].
  - induction IH as [|c l Hc _ IHl]; [constructor|].
    rewrite ktree_lst_cons in H. apply andb_true_iff in H. destruct H as [H1 H2].
    rewrite qstrs_lst_cons. apply Forall_app. split; [exact (Hc H1)|exact (IHl H2)].
Qed.

Lemma flit_litform s : flit s -> litform (dq s).
Proof.
  intros [[Hq _] _]. destruct (quotable_inv s Hq) as (H1 & _ & H3 & H4 & _).
  exists c_dq, s. split; [reflexivity|]. split; [reflexivity|]. split; [exact H1|].
  split; apply contains2_nopair; assumption.
Qed.

Lemma ffill_litform kvs : ktree foam_leaf (Dict kvs) = true -> Forall litform (ffill kvs).
Proof.
  intros Hs. unfold ffill. apply Forall_map_iff. pose proof (qstrs_flit (Dict kvs) Hs) as H.
  revert H. apply Forall_impl. exact flit_litform.
Qed.

Lemma foam_written_filled kvs : ktree foam_leaf (Dict kvs) = true ->
  remove_trailing_spaces (foam_body kvs) = expandL (ffill kvs) (remove_trailing_spaces (abody kvs)).
Proof.
  intros Hs. rewrite (foam_body_filled kvs Hs). apply rts_expand.
  pose proof (ffill_litform kvs Hs) as H. revert H. apply Forall_impl. exact litform_solid.
Qed.

(* ================================================================================================ *)
(* 5. the literal scanner with a trace                                                              *)
(* ================================================================================================ *)

(* Lexer.scan_literals, additionally returning, for every literal it registers, the quote flavour of the alternative
   that matched and the matched text (in the order of the scan).  The first component IS scan_literals
   (scan_trace_fst, for every input). *)
Fixpoint scan_trace (fuel : nat) (prev_bsl : bool) (count : Z) (out : str) (tab : list (N * str)) (s : str)
  : (str * Z * list (N * str)) * list (cp * str) :=
  match fuel with
  | O => ((rev out ++ s, count, tab), [])
  | S f =>
      match s with
      | [] => ((rev out, count, tab), [])
      | c :: s' =>
          match quoted_at c_sq prev_bsl s with
          | Some (lit, rest) =>
              let k := counter_next count in
              let (r, tr) := scan_trace f false k (rev (placeholder w_STRINGLITERAL (Z.to_N k)) ++ out)
                                        (tupdate tab [(Z.to_N k, remove_quotes lit)]) rest in
              (r, (c_sq, lit) :: tr)
          | None =>
              match quoted_at c_dq prev_bsl s with
              | Some (lit, rest) =>
                  if has_char c_dollar lit then scan_trace f false count (rev lit ++ out) tab rest
                  else
                    let k := counter_next count in
                    let (r, tr) := scan_trace f false k (rev (placeholder w_STRINGLITERAL (Z.to_N k)) ++ out)
                                              (tupdate tab [(Z.to_N k, remove_quotes lit)]) rest in
                    (r, (c_dq, lit) :: tr)
              | None => scan_trace f (c =? c_bsl) count (c :: out) tab s'
              end
          end
      end
  end.

Lemma scan_trace_fst : forall fuel pb count out tab s,
  fst (scan_trace fuel pb count out tab s) = scan_literals fuel pb count out tab s.
Proof.
  induction fuel as [|f IH]; intros pb count out tab s; [reflexivity|].
  destruct s as [|c s']; [reflexivity|]. cbn [scan_trace scan_literals].
  destruct (quoted_at c_sq pb (c :: s')) as [[lit rest]|].
  - cbv zeta. rewrite <- IH.
    destruct (scan_trace f false (counter_next count) (rev (placeholder w_STRINGLITERAL (Z.to_N (counter_next count))) ++ out)
                (tupdate tab [(Z.to_N (counter_next count), remove_quotes lit)]) rest) as [r tr]. reflexivity.
  - destruct (quoted_at c_dq pb (c :: s')) as [[lit rest]|]; [|apply IH].
    destruct (has_char c_dollar lit); [apply IH|]. cbv zeta. rewrite <- IH.
    destruct (scan_trace f false (counter_next count) (rev (placeholder w_STRINGLITERAL (Z.to_N (counter_next count))) ++ out)
                (tupdate tab [(Z.to_N (counter_next count), remove_quotes lit)]) rest) as [r tr]. reflexivity.
Qed.

(* the flavours and texts of the literals the scanner registers in [text] *)
Definition literal_trace (count : Z) (text : str) : list (cp * str) :=
  snd (scan_trace (S (length text)) false count [] [] text).

Lemma trace_step_dq f count out tab (s rest : list N) : no_dq s = true -> has_char c_dollar s = false ->
  scan_trace (S f) false count out tab (dq s ++ rest) =
  (let (r, tr) := scan_trace f false (counter_next count) (rev (PH (Z.to_N (counter_next count))) ++ out)
                             (tset (Z.to_N (counter_next count)) s tab) rest in (r, (c_dq, dq s) :: tr)).
Proof.
  intros Hno Hd.
  assert (E : exists c T', dq s ++ rest = c :: T') by (unfold dq; cbn [app]; eauto).
  destruct E as (c & T' & E). rewrite E. cbn [scan_trace]. rewrite <- E.
  rewrite (QuoteProofs.dq_not_sq_opener s rest), (QuoteProofs.dq_literal_found s rest Hno).
  assert (Hdd : has_char c_dollar (dq s) = false).
  { unfold dq. rewrite has_char_cons, has_char_app', Hd. reflexivity. }
  rewrite Hdd. rewrite (proj2 (QuoteProofs.unquote_quoted s)). reflexivity.
Qed.

Lemma trace_step_char f count out tab c (X : list N) : tchar c = true ->
  scan_trace (S f) false count out tab (c :: X) = scan_trace f false count (c :: out) tab X.
Proof.
  intros Hc. cbn [scan_trace].
  rewrite (quoted_at_tchar c_sq c X Hc (or_introl eq_refl)), (quoted_at_tchar c_dq c X Hc (or_intror eq_refl)).
  assert (Hb : (c =? c_bsl) = false) by tch. rewrite Hb. reflexivity.
Qed.

Definition dlit (s : list N) : Prop := has_char c_dollar s = false /\ no_dq s = true.

Lemma trace_expand (A : list N) : forall ls fuel count out tab,
  Forall dlit ls -> forallb achar A = true -> nh A = length ls ->
  (length (expandL (map dq ls) A) <= fuel)%nat ->
  scan_trace fuel false count out tab (expandL (map dq ls) A) =
    ((rev out ++ expandL (map PH (ids count (length ls))) A, cafter count (length ls),
      tupdate tab (combine (ids count (length ls)) ls)),
     map (fun s => (c_dq, dq s)) ls).
Proof.
  induction A as [|c A IH]; intros ls fuel count out tab Hls HA Hn Hf.
  - destruct ls as [|s ls]; [|discriminate Hn]. cbn [expandL length ids idsZ map cafter combine].
    destruct fuel; cbn [scan_trace]; rewrite ?app_nil_r; reflexivity.
  - cbn [forallb] in HA. apply andb_true_iff in HA. destruct HA as [Hc HA].
    destruct (c =? HOLE) eqn:E.
    + apply N.eqb_eq in E. subst c. cbn [nh] in Hn. rewrite N.eqb_refl in Hn.
      destruct ls as [|s ls]; [discriminate Hn|]. cbn [length] in Hn.
      inversion Hls as [|s' ls' Hs Hls']; subst.
      cbn [map] in Hf |- *. rewrite expandL_hole. rewrite expandL_hole in Hf.
      assert (Hl1 : (1 <= length (dq s))%nat) by (unfold dq; cbn [length]; lia).
      rewrite app_length in Hf.
      destruct fuel as [|f]; [lia|].
      assert (Hf' : (length (expandL (map dq ls) A) <= f)%nat) by lia.
      destruct Hs as [Hd Hq].
      rewrite (trace_step_dq f count out tab s _ Hq Hd).
      rewrite (IH ls f _ _ _ Hls' HA ltac:(lia) Hf').
      cbn [length ids idsZ map cafter combine]. fold (ids (counter_next count) (length ls)).
      rewrite expandL_hole, tupdate_cons. cbn [fst snd].
      rewrite rev_app_distr, rev_involutive, <- app_assoc. reflexivity.
    + pose proof (achar_inv c Hc E) as Ht.
      rewrite (expandL_char _ c A E). rewrite (expandL_char _ c A E) in Hf.
      destruct fuel as [|f]; [cbn [length] in Hf; lia|].
      cbn [nh] in Hn. rewrite E in Hn. cbn [Nat.add] in Hn.
      rewrite (trace_step_char f count out tab c _ Ht).
      rewrite (IH ls f count (c :: out) tab Hls HA Hn ltac:(cbn [length] in Hf; lia)).
      cbn [rev]. rewrite <- app_assoc, (expandL_char _ c A E). reflexivity.
Qed.

Lemma scan_expand_dq (A : list N) ls fuel count out tab :
  Forall dlit ls -> forallb achar A = true -> nh A = length ls ->
  (length (expandL (map dq ls) A) <= fuel)%nat ->
  scan_literals fuel false count out tab (expandL (map dq ls) A) =
    (rev out ++ expandL (map PH (ids count (length ls))) A, cafter count (length ls),
     tupdate tab (combine (ids count (length ls)) ls)).
Proof.
  intros Hls HA Hn Hf. rewrite <- scan_trace_fst, (trace_expand A ls fuel count out tab Hls HA Hn Hf). reflexivity.
Qed.

Lemma flit_dlit s : flit s -> dlit s.
Proof. intros [Hq Hd]. split; [exact (proj1 (qlit_form s Hq))|exact Hd]. Qed.

(* ================================================================================================ *)
(* 6. the lexer on a text filled with double-quoted literals                                        *)
(* ================================================================================================ *)

Theorem lex_filled_dq comments dir count (A : list N) ls :
  forallb achar A = true -> Forall flit ls -> nh A = length ls ->
  lex comments dir count (expandL (map dq ls) A) =
  mkLexed (tokenize (separate_delimiters (expandL (map PH (ids count (length ls))) (remove_line_endings A))))
          (cafter count (length ls)) [] [] [] [] (tupdate [] (combine (ids count (length ls)) ls)).
Proof.
  intros HA Hls Hn.
  set (fs := map dq ls). set (W := expandL fs A).
  assert (Hlf : Forall litform fs).
  { unfold fs. apply Forall_map_iff. revert Hls. apply Forall_impl. exact flit_litform. }
  assert (Hsol : Forall solid fs) by (revert Hlf; apply Forall_impl; exact litform_solid).
  assert (Hcr : has_char c_cr W = false).
  { apply forallb_nochar. unfold W. apply expandL_forallb.
    - apply achar_ne; [reflexivity|exact HA].
    - revert Hlf. apply Forall_impl. intros f Hf. apply (litform_chars _ f Hf).
      + intros q Hq. destruct (quote_facts q Hq) as (_ & _ & _ & _ & _ & _ & B). rewrite B. reflexivity.
      + intros c Hc. destruct (lit_char_facts c Hc) as (_ & _ & B & _). rewrite B. reflexivity. }
  assert (Hcat : concat (splitlines W) = W) by (exact (concat_splitlines W Hcr [])).
  assert (Hl1 : Forall (fun l => nopair c_slash c_slash l = true) (splitlines W)).
  { apply nopair_lines. rewrite Hcat. unfold W. apply nopair_expand; [left; reflexivity|exact HA|exact Hlf]. }
  assert (Hl2 : Forall (fun l => include_line_rest l = None) (splitlines W)).
  { unfold splitlines, W. apply includes_expand; [exact HA|exact Hlf|left; constructor]. }
  assert (Hb : nopair c_slash c_star W = true).
  { unfold W. apply nopair_expand; [right; reflexivity|exact HA|exact Hlf]. }
  pose proof (achar_rle A HA) as HA2.
  assert (Hn2 : nh (remove_line_endings A) = length ls) by (rewrite nh_rle; exact Hn).
  assert (Hw : Forall dlit ls) by (revert Hls; apply Forall_impl; exact flit_dlit).
  assert (Ht4 : forallb tchar (expandL (map PH (ids count (length ls))) (remove_line_endings A)) = true).
  { apply expandL_tchars; [exact HA2| |rewrite map_length, ids_length, Hn2; lia].
    apply Forall_map_iff. apply Forall_forall. intros k _. apply PH_tchars. }
  unfold lex. cbv zeta.
  rewrite (extract_line_comments_nopair comments _ Hl1 count).
  rewrite (extract_includes_none' dir _ Hl2 count).
  rewrite Hcat.
  rewrite (extract_block_comments_nopair comments W Hb).
  unfold W at 1. rewrite (rle_expand A fs Hsol).
  unfold extract_string_literals, fs.
  rewrite (scan_expand_dq (remove_line_endings A) ls _ count [] [] Hw HA2 Hn2 (Nat.le_succ_diag_r _)).
  cbn [rev app].
  rewrite (extract_expressions_none _ _ (tchars_no c_dq _ Ht4 eq_refl) (tchars_no c_dollar _ Ht4 eq_refl)).
  reflexivity.
Qed.

(* ================================================================================================ *)
(* 7. the lexer cannot tell the Foam text from the native text of the stripped tree                 *)
(* ================================================================================================ *)

Definition stripped (kvs : list (key * tree)) : list (key * tree) := kvs_of (strip_us (Dict kvs)).

Lemma strip_dict kvs : strip_us (Dict kvs) = Dict (stripped kvs).
Proof. reflexivity. Qed.

Lemma foam_text_stripped kvs : foam_to_string_plain kvs = remove_trailing_spaces (foam_body (stripped kvs)).
Proof. reflexivity. Qed.

Lemma foam_leaf_ktree_writable t : ktree foam_leaf t = true -> ktree writable_leaf t = true.
Proof. exact (ktree_mono foam_leaf writable_leaf foam_leaf_writable t). Qed.

Theorem lex_foam kvs comments dir count : ktree foam_leaf (Dict kvs) = true ->
  lex comments dir count (remove_trailing_spaces (foam_body kvs)) = lex comments dir count (to_string_plain kvs).
Proof.
  intros Hs. pose proof (foam_leaf_ktree_writable _ Hs) as Hw.
  rewrite (lex_written_full kvs comments dir count Hw).
  rewrite (foam_written_filled kvs Hs). unfold ffill.
  destruct (Qa_all (Dict kvs) Hw 0%nat false) as [Ha Hn]. rewrite gfmt_dict in Ha, Hn. fold (abody kvs) in Ha, Hn.
  rewrite (lex_filled_dq comments dir count (remove_trailing_spaces (abody kvs)) (qstrs (Dict kvs))).
  - fold (nq (Dict kvs)). rewrite (tokens_filled kvs _ Hw); [reflexivity|rewrite ids_length; apply Nat.le_refl|apply ids_small].
  - apply forallb_rts. exact Ha.
  - apply qstrs_flit. exact Hs.
  - rewrite nh_rts. exact Hn.
Qed.

(* parse_string is a function of the lexer's result *)
Lemma parse_string_lex comments dir count t1 t2 :
  lex comments dir count t1 = lex comments dir count t2 ->
  parse_string comments dir count t1 = parse_string comments dir count t2.
Proof. intros H. unfold parse_string. rewrite H. reflexivity. Qed.

Theorem parse_foam_as_native kvs comments dir count : foam_writable_tree (Dict kvs) = true ->
  parse_string comments dir count (foam_to_string_plain kvs) =
  parse_string comments dir count (to_string_plain (stripped kvs)).
Proof.
  intros H. rewrite foam_text_stripped. apply parse_string_lex. apply lex_foam.
  rewrite <- strip_dict. apply foam_strip_ktree. exact H.
Qed.

(* ================================================================================================ *)
(* 8. values                                                                                        *)
(* ================================================================================================ *)

Lemma foam_written_eq v : foam_leaf v = true -> foam_written_value v = written_value v.
Proof.
  intros H. destruct (foam_leaf_cases v H) as [(_ & Ew)|(_ & s & -> & Hq & _ & Ew)].
  - unfold foam_written_value, written_value. rewrite Ew. reflexivity.
  - rewrite (written_quoted s Hq). unfold foam_written_value, pv. rewrite Ew.
    rewrite (proj2 (QuoteProofs.unquote_quoted s)). reflexivity.
Qed.

Lemma map_leaves_ext_on (ok : scalar -> bool) (f g : scalar -> scalar) : (forall v, ok v = true -> f v = g v) ->
  forall t, ktree ok t = true -> map_leaves f t = map_leaves g t.
Proof.
  intros Hfg. induction t as [v|kvs IH|ts IH] using tree_ind'; intros H.
  - cbn [map_leaves]. rewrite (Hfg v H). reflexivity.
  - rewrite !TokProofs.map_leaves_dict. f_equal. induction IH as [|[k c] kvs Hc _ IHk]; [reflexivity|].
    rewrite ktree_dict_cons in H. apply andb_true_iff in H. destruct H as [H H3].
    apply andb_true_iff in H. destruct H as [_ H2]. cbn [snd] in Hc.
    cbn [map]. unfold TokProofs.mkv at 1 3. cbn [fst snd]. rewrite (Hc H2), (IHk H3). reflexivity.
  - rewrite !TokProofs.map_leaves_lst. f_equal. induction IH as [|c l Hc _ IHl]; [reflexivity|].
    rewrite ktree_lst_cons in H. apply andb_true_iff in H. destruct H as [H1 H2].
    cbn [map]. rewrite (Hc H1), (IHl H2). reflexivity.
Qed.

(* ================================================================================================ *)
(* 9. the Foam round trip                                                                           *)
(* ================================================================================================ *)

(* general form: the side conditions concern the tree that is actually written (underscore keys removed) *)
Theorem roundtrip_foam_stripped : forall kvs dirc count,
  wf (Dict kvs) = true -> foam_writable_tree (Dict kvs) = true ->
  (-1 <= count)%Z -> (Z.of_nat (nq (strip_us (Dict kvs))) <= 1000000)%Z -> quoted_within 11 (strip_us (Dict kvs)) = true ->
  exists count',
  parse_string true dirc count (foam_to_string_plain kvs) =
    Ok (mkParsed (mkSD (kvs_of (map_leaves foam_written_value (strip_us (Dict kvs)))) [] [] [] []) count').
Proof.
  intros kvs dirc count Hw Hf Hc Hn Hdeep.
  pose proof (foam_strip_ktree (Dict kvs) Hf) as Hs.
  pose proof (wf_strip_us (Dict kvs) Hw) as Hw'.
  rewrite (parse_foam_as_native kvs true dirc count Hf).
  rewrite (map_leaves_ext_on foam_leaf foam_written_value written_value foam_written_eq _ Hs).
  rewrite strip_dict in *.
  apply roundtrip_native_partial; try assumption.
  rewrite writable_ktree. apply foam_leaf_ktree_writable. exact Hs.
Qed.

Theorem roundtrip_foam : forall kvs dirc count,
  wf (Dict kvs) = true -> foam_writable_tree (Dict kvs) = true ->
  (-1 <= count)%Z -> (Z.of_nat (nq (Dict kvs)) <= 1000000)%Z -> quoted_within 11 (Dict kvs) = true ->
  exists count',
  parse_string true dirc count (foam_to_string_plain kvs) =
    Ok (mkParsed (mkSD (kvs_of (map_leaves foam_written_value (strip_us (Dict kvs)))) [] [] [] []) count').
Proof.
  intros kvs dirc count Hw Hf Hc Hn Hdeep. apply roundtrip_foam_stripped; try assumption.
  - pose proof (nq_strip_us (Dict kvs)). lia.
  - apply quoted_within_strip_us. exact Hdeep.
Qed.

(* on the Foam domain the value read back is the same as on the native route *)
Theorem foam_values_as_native : forall kvs, foam_writable_tree (Dict kvs) = true ->
  map_leaves foam_written_value (strip_us (Dict kvs)) = map_leaves written_value (strip_us (Dict kvs)).
Proof.
  intros kvs Hf. apply (map_leaves_ext_on foam_leaf _ _ foam_written_eq). apply foam_strip_ktree. exact Hf.
Qed.

(* a string leaf of the Foam domain that the classifier does not re-type comes back as itself *)
Theorem foam_written_value_string : forall s, foam_leaf (SStr s) = true -> parse_value s = Ok (SStr s) ->
  foam_written_value (SStr s) = SStr s.
Proof.
  intros s Hf Hp. rewrite (foam_written_eq _ Hf). apply written_value_string; [apply foam_leaf_writable; exact Hf|exact Hp].
Qed.

(* ================================================================================================ *)
(* 10. every literal the lexer registers on a Foam text is double-quoted                            *)
(* ================================================================================================ *)

Theorem foam_literals_double_quoted : forall kvs dirc count, foam_writable_tree (Dict kvs) = true ->
  let text := foam_to_string_plain kvs in
  let scanned := remove_line_endings text in
  let run := scan_trace (S (length scanned)) false count [] [] scanned in
  lxd_lit (lex true dirc count text) = snd (fst run) /\
  snd run = map (fun s => (c_dq, dq s)) (qstrs (strip_us (Dict kvs))) /\
  Forall (fun e => fst e = c_dq) (snd run).
Proof.
  intros kvs dirc count Hf. cbv zeta.
  pose proof (foam_strip_ktree (Dict kvs) Hf) as Hs. rewrite strip_dict in *.
  set (kvs' := stripped kvs) in *.
  pose proof (foam_leaf_ktree_writable _ Hs) as Hw.
  destruct (Qa_all (Dict kvs') Hw 0%nat false) as [Ha Hn]. rewrite gfmt_dict in Ha, Hn. fold (abody kvs') in Ha, Hn.
  set (A := remove_trailing_spaces (abody kvs')).
  assert (HA : forallb achar A = true) by (apply forallb_rts; exact Ha).
  assert (HnA : nh A = length (qstrs (Dict kvs'))) by (unfold A; rewrite nh_rts; exact Hn).
  pose proof (qstrs_flit (Dict kvs') Hs) as Hfl.
  assert (Hsol : Forall solid (ffill kvs')).
  { pose proof (ffill_litform kvs' Hs) as H. revert H. apply Forall_impl. exact litform_solid. }
  assert (Htext : foam_to_string_plain kvs = expandL (ffill kvs') A).
  { rewrite foam_text_stripped. fold kvs'. exact (foam_written_filled kvs' Hs). }
  rewrite Htext. rewrite (rle_expand A (ffill kvs') Hsol). unfold ffill.
  rewrite (trace_expand (remove_line_endings A) (qstrs (Dict kvs')) _ count [] []).
  - cbn [fst snd]. split; [|split; [reflexivity|]].
    + rewrite (lex_filled_dq true dirc count A (qstrs (Dict kvs')) HA Hfl HnA). reflexivity.
    + apply Forall_forall. intros e He. apply in_map_iff in He. destruct He as (s & <- & _). reflexivity.
  - revert Hfl. apply Forall_impl. exact flit_dlit.
  - apply achar_rle. exact HA.
  - rewrite nh_rle. exact HnA.
  - apply Nat.le_succ_diag_r.
Qed.

(* the written text itself: a skeleton without any quote character, whose holes are filled with dq s *)
Theorem foam_text_shape : forall kvs, foam_writable_tree (Dict kvs) = true ->
  exists A, foam_to_string_plain kvs = expandL (map dq (qstrs (strip_us (Dict kvs)))) A /\
            forallb (fun c => negb (is_quote c)) A = true /\ nh A = length (qstrs (strip_us (Dict kvs))) /\
            Forall (fun s => no_dq s = true) (qstrs (strip_us (Dict kvs))).
Proof.
  intros kvs Hf. pose proof (foam_strip_ktree (Dict kvs) Hf) as Hs. rewrite strip_dict in *.
  set (kvs' := stripped kvs) in *.
  pose proof (foam_leaf_ktree_writable _ Hs) as Hw.
  destruct (Qa_all (Dict kvs') Hw 0%nat false) as [Ha Hn]. rewrite gfmt_dict in Ha, Hn. fold (abody kvs') in Ha, Hn.
  exists (remove_trailing_spaces (abody kvs')). split; [|split; [|split]].
  - rewrite foam_text_stripped. fold kvs'. exact (foam_written_filled kvs' Hs).
  - pose proof (forallb_rts achar _ Ha) as H. apply forallb_forall. intros c Hc.
    pose proof (forallb_In _ _ _ H Hc) as Hac. unfold achar in Hac. apply orb_true_iff in Hac.
    destruct Hac as [Ht|Hh].
    + destruct (tchar_excl c Ht) as (_ & _ & A1 & A2 & _). unfold is_quote. rewrite A1, A2. reflexivity.
    + apply N.eqb_eq in Hh. subst c. reflexivity.
  - rewrite nh_rts. exact Hn.
  - pose proof (qstrs_flit (Dict kvs') Hs) as H. revert H. apply Forall_impl. intros s [_ Hd]. exact Hd.
Qed.

(* ================================================================================================ *)
(* 11. C09: the JSON front end and the native round trip agree on trees the classifier leaves alone  *)
(* ================================================================================================ *)

(* every leaf reads back as itself *)
Definition stable_leaf (v : scalar) : bool := scalar_eqb (written_value v) v.
Fixpoint stable_tree (t : tree) : bool :=
  match t with
  | Leaf v => stable_leaf v
  | Dict kvs => (fix go (l : list (key * tree)) : bool :=
                   match l with [] => true | (_, c) :: l' => stable_tree c && go l' end) kvs
  | Lst ts => (fix go (l : list tree) : bool :=
                 match l with [] => true | c :: l' => stable_tree c && go l' end) ts
  end.

Lemma scalar_eqb_eq a b : scalar_eqb a b = true -> a = b.
Proof.
  destruct a as [x|x|x| |x], b as [y|y|y| |y]; cbn [scalar_eqb]; intros H; try discriminate H; try reflexivity.
  - apply Z.eqb_eq in H. subst. reflexivity.
  - apply SDictProofs.str_eqb_eq in H. subst. reflexivity.
  - apply Bool.eqb_prop in H. subst. reflexivity.
  - apply SDictProofs.str_eqb_eq in H. subst. reflexivity.
Qed.

Lemma stable_map : forall t, stable_tree t = true -> map_leaves written_value t = t.
Proof.
  induction t as [v|kvs IH|ts IH] using tree_ind'; intros H.
  - cbn [map_leaves]. f_equal. apply scalar_eqb_eq. exact H.
  - rewrite TokProofs.map_leaves_dict. f_equal. induction IH as [|[k c] kvs Hc _ IHk]; [reflexivity|].
    change (stable_tree (Dict ((k, c) :: kvs))) with (stable_tree c && stable_tree (Dict kvs)) in H.
    apply andb_true_iff in H. destruct H as [H1 H2]. cbn [snd] in Hc.
    cbn [map]. unfold TokProofs.mkv at 1. cbn [fst snd]. rewrite (Hc H1), (IHk H2). reflexivity.
  - rewrite TokProofs.map_leaves_lst. f_equal. induction IH as [|c l Hc _ IHl]; [reflexivity|].
    change (stable_tree (Lst (c :: l))) with (stable_tree c && stable_tree (Lst l)) in H.
    apply andb_true_iff in H. destruct H as [H1 H2]. cbn [map]. rewrite (Hc H1), (IHl H2). reflexivity.
Qed.

Theorem json_equals_native : forall dir c1 c2 kvs,
  wf (Dict kvs) = true -> writable_tree (Dict kvs) = true -> stable_tree (Dict kvs) = true ->
  ordinary_kvs kvs = true -> no_include_keys kvs = true ->
  (-1 <= c2)%Z -> (Z.of_nat (nq (Dict kvs)) <= 1000000)%Z -> quoted_within 11 (Dict kvs) = true ->
  sd_data (pr_sd (json_parse dir c1 kvs)) = kvs /\
  exists c2', parse_string true dir c2 (to_string_plain kvs) = Ok (mkParsed (mkSD kvs [] [] [] []) c2').
Proof.
  intros dir c1 c2 kvs Hw Hwr Hst Hord Hinc Hc Hn Hdeep. split.
  - exact (proj1 (SemProofs.json_front_end_identity dir c1 kvs Hw Hord Hinc)).
  - destruct (roundtrip_native_partial kvs dir c2 Hw Hwr Hc Hn Hdeep) as [c2' H]. exists c2'.
    rewrite (stable_map (Dict kvs) Hst) in H. exact H.
Qed.

(* without the stability hypothesis: the native data is the JSON data with every leaf passed through the classifier *)
Theorem json_native_up_to_classifier : forall dir c1 c2 kvs,
  wf (Dict kvs) = true -> writable_tree (Dict kvs) = true ->
  ordinary_kvs kvs = true -> no_include_keys kvs = true ->
  (-1 <= c2)%Z -> (Z.of_nat (nq (Dict kvs)) <= 1000000)%Z -> quoted_within 11 (Dict kvs) = true ->
  exists c2', parse_string true dir c2 (to_string_plain kvs) =
    Ok (mkParsed (mkSD (kvs_of (map_leaves written_value (Dict (sd_data (pr_sd (json_parse dir c1 kvs)))))) [] [] [] []) c2').
Proof.
  intros dir c1 c2 kvs Hw Hwr Hord Hinc Hc Hn Hdeep.
  rewrite (proj1 (SemProofs.json_front_end_identity dir c1 kvs Hw Hord Hinc)).
  exact (roundtrip_native_partial kvs dir c2 Hw Hwr Hc Hn Hdeep).
Qed.

Print Assumptions json_native_up_to_classifier.
Print Assumptions roundtrip_foam_stripped.
Print Assumptions roundtrip_foam.
Print Assumptions foam_literals_double_quoted.
Print Assumptions foam_text_shape.
Print Assumptions json_equals_native.
