(* Proofs for C02 (layout tolerance, literal spellings), C12 (comments, header) and C03 (fixed point mechanisms). *)
From Coq Require Import NArith ZArith List Bool.
From Coq Require Import Lia ZifyBool ZifyN ZifyNat.
From DictIO Require Import Chars Str Value Scalar TypeTable SDict Layout Lexer LayoutSpec ScalarProofs.
Import ListNotations.
Open Scope N_scope.

(* ------------------------------------------------------------------------------------------ *)
(* small list / string facts                                                                   *)

Lemma has_char_app' c (a b : list N) : has_char c (a ++ b) = has_char c a || has_char c b.
Proof. unfold has_char. apply existsb_app. Qed.

Lemma has_char_cons c x (a : list N) : has_char c (x :: a) = (c =? x) || has_char c a.
Proof. reflexivity. Qed.

Lemma has_char_false_In c (s : list N) : has_char c s = false -> forall x, In x s -> (x =? c) = false.
Proof.
  intros H x Hx. destruct (x =? c) eqn:E; [|reflexivity]. apply N.eqb_eq in E. subst x.
  assert (has_char c s = true); [|congruence].
  unfold has_char. apply existsb_exists. exists c. split; [exact Hx|apply N.eqb_refl].
Qed.

Lemma starts_with_app (p t : list N) : starts_with p (p ++ t) = true.
Proof. induction p as [|x p IH]; cbn [app starts_with]; [destruct t; reflexivity|]. rewrite N.eqb_refl, IH. reflexivity. Qed.

Lemma drop_n_app {A} (p t : list A) : drop_n (length p) (p ++ t) = t.
Proof. induction p as [|x p IH]; cbn [length app drop_n]; [destruct t; reflexivity|exact IH]. Qed.

Lemma lstrip_ws (w t : list N) : (forall c, In c w -> is_space c = true) -> lstrip (w ++ t) = lstrip t.
Proof.
  induction w as [|c w IH]; intros H; cbn [app]; [reflexivity|].
  cbn [lstrip]. rewrite (H c (or_introl eq_refl)). apply IH. intros d Hd. apply H. right. exact Hd.
Qed.

(* ------------------------------------------------------------------------------------------ *)
(* C12 / C03 : the default header                                                              *)

Lemma has_cpp_mark_eq a b c d e r :
  has_cpp_mark (a :: b :: c :: d :: e :: r) =
  (is_space a && ((b =? 67) || (b =? 99)) && (c =? c_plus) && (d =? c_plus) && is_space e)
  || has_cpp_mark (b :: c :: d :: e :: r).
Proof. reflexivity. Qed.

Lemma has_cpp_mark_app (a b : list N) : has_cpp_mark a = true -> has_cpp_mark (a ++ b) = true.
Proof.
  induction a as [|x a IH]; intros H; [discriminate H|].
  destruct a as [|y [|z [|u [|v a']]]]; try discriminate H.
  rewrite has_cpp_mark_eq in H. cbn [app] in *. rewrite has_cpp_mark_eq.
  apply orb_true_iff in H. apply orb_true_iff. destruct H as [H|H]; [left; exact H|right; apply IH; exact H].
Qed.

Lemma native_header_mark : has_cpp_mark native_header = true.
Proof. vm_compute. reflexivity. Qed.

Lemma default_header_once : forall bc,
  make_default_block_comment (make_default_block_comment bc) = make_default_block_comment bc /\
  has_cpp_mark (make_default_block_comment bc) = true.
Proof.
  intros bc.
  assert (K : forall x, has_cpp_mark x = true -> make_default_block_comment x = x).
  { intros x Hx. unfold make_default_block_comment. rewrite Hx. reflexivity. }
  assert (M : has_cpp_mark (make_default_block_comment bc) = true).
  { unfold make_default_block_comment. destruct (has_cpp_mark bc) eqn:E; [exact E|].
    apply has_cpp_mark_app. exact native_header_mark. }
  split; [apply K; exact M|exact M].
Qed.

Lemma default_header_idem : forall bc,
  make_default_block_comment (make_default_block_comment bc) = make_default_block_comment bc.
Proof. intros bc. exact (proj1 (default_header_once bc)). Qed.

(* ------------------------------------------------------------------------------------------ *)
(* C03 : placeholders number injectively                                                       *)

Lemma dec_to_N_zeros k (d : list N) : dec_to_N (repeat 48 k ++ d) = dec_to_N d.
Proof.
  unfold dec_to_N. induction k as [|k IH]; cbn [repeat app fold_left]; [reflexivity|exact IH].
Qed.

Lemma dec_to_N_pad6 i : dec_to_N (pad6 i) = i.
Proof. unfold pad6. rewrite dec_to_N_zeros. exact (proj2 (N_to_dec_spec i)). Qed.

Lemma placeholder_injective : forall w i j, (i < 1000000)%N -> (j < 1000000)%N ->
  placeholder w i = placeholder w j -> i = j.
Proof.
  intros w i j _ _ H. unfold placeholder in H. apply app_inv_head in H.
  rewrite <- (dec_to_N_pad6 i), <- (dec_to_N_pad6 j), H. reflexivity.
Qed.

(* ------------------------------------------------------------------------------------------ *)
(* C12 : literal re-insertion                                                                  *)

Lemma match_ph_pair_hit (ph ws post : list N) :
  ph <> [] -> (forall c, In c ph -> is_space c = false) -> (forall c, In c ws -> is_space c = true) -> ws <> [] ->
  match_ph_pair ph (ph ++ ws ++ ph ++ [c_semi] ++ post) = Some post.
Proof.
  intros Hph Hns Hws Hne. unfold match_ph_pair.
  rewrite starts_with_app, drop_n_app.
  destruct ws as [|w ws]; [congruence|]. cbn [app skip_ws1].
  rewrite (Hws w (or_introl eq_refl)).
  rewrite lstrip_ws by (intros c Hc; apply Hws; right; exact Hc).
  destruct ph as [|p ph]; [congruence|].
  assert (El : lstrip ((p :: ph) ++ c_semi :: post) = (p :: ph) ++ c_semi :: post).
  { cbn [app lstrip]. rewrite (Hns p (or_introl eq_refl)). reflexivity. }
  rewrite El.
  change (c_semi :: post) with ([c_semi] ++ post).
  rewrite (app_assoc (p :: ph) [c_semi] post). rewrite starts_with_app.
  replace (S (length (p :: ph))) with (length ((p :: ph) ++ [c_semi])) by (rewrite app_length; cbn [length]; lia).
  rewrite drop_n_app. reflexivity.
Qed.

Lemma match_ph_pair_miss (ph : list N) c x (t : list N) :
  (c =? x) = false -> match_ph_pair (c :: ph) (x :: t) = None.
Proof. intros H. unfold match_ph_pair. cbn [starts_with]. rewrite H. reflexivity. Qed.

Lemma sub_ph_pair_literal : forall ph repl pre post ws fuel,
  (match ph with c :: _ => has_char c pre = false | [] => False end) ->
  (forall c, In c ph -> is_space c = false) -> (forall c, In c ws -> is_space c = true) -> ws <> [] ->
  (length (pre ++ ph ++ ws ++ ph ++ [c_semi] ++ post) < fuel)%nat ->
  exists post', fst (sub_ph_pair fuel ph repl (pre ++ ph ++ ws ++ ph ++ [c_semi] ++ post)) = pre ++ repl ++ post'.
Proof.
  intros ph repl pre post ws fuel Hph Hns Hws Hne. revert fuel. unfold cp, str in *.
  destruct ph as [|p ph]; [contradiction|].
  induction pre as [|x pre IH]; intros fuel Hf.
  - destruct fuel as [|f]; [inversion Hf|].
    pose proof (match_ph_pair_hit (p :: ph) ws post ltac:(discriminate) Hns Hws Hne) as Hm.
    cbn [app] in *. cbn [sub_ph_pair]. rewrite Hm.
    destruct (sub_ph_pair f (p :: ph) repl post) as [r b]. exists r. reflexivity.
  - destruct fuel as [|f]; [inversion Hf|].
    rewrite has_char_cons in Hph. apply orb_false_iff in Hph. destruct Hph as [Hx Hpre].
    assert (Hf' : (length (pre ++ (p :: ph) ++ ws ++ (p :: ph) ++ [c_semi] ++ post) < f)%nat)
      by (cbn [app length] in Hf |- *; lia).
    destruct (IH Hpre f Hf') as [post' E].
    cbn [app sub_ph_pair]. rewrite (match_ph_pair_miss ph p x _ Hx). cbn [app] in E.
    destruct (sub_ph_pair f (p :: ph) repl _) as [r b].
    cbn [fst] in *. exists post'. rewrite E. reflexivity.
Qed.

(* ------------------------------------------------------------------------------------------ *)
(* C12 : extraction of a line comment                                                          *)

Lemma chomp_lf_spec (body nl : list N) : has_char c_lf body = false -> line_end nl ->
  chomp_lf (body ++ nl) = (body, nl).
Proof.
  intros Hb [-> | ->]; unfold chomp_lf.
  - rewrite app_nil_r. destruct (rev body) as [|c r] eqn:Er.
    + apply rev_nil_inv in Er. subst. reflexivity.
    + assert (Hc : In c body). { apply in_rev. rewrite Er. left. reflexivity. }
      rewrite (has_char_false_In _ _ Hb c Hc). reflexivity.
  - rewrite rev_app_distr. cbn [rev app]. rewrite N.eqb_refl, rev_involutive. reflexivity.
Qed.

Lemma find_comment_eq pc (acc : list N) a b (r : list N) :
  find_comment pc acc (a :: b :: r) =
  if (a =? c_slash) && (b =? c_slash) && negb pc then Some (rev acc, a :: b :: r)
  else find_comment (a =? c_colon) (a :: acc) (b :: r).
Proof. reflexivity. Qed.

Definition colon_ok (before : list N) (pc : bool) : Prop :=
  match rev before with c :: _ => (c =? c_colon) = false | [] => pc = false end.

Lemma find_comment_spec (rest : list N) : forall (before acc : list N) pc,
  has_char c_slash before = false -> colon_ok before pc ->
  find_comment pc acc (before ++ c_slash :: c_slash :: rest) = Some (rev acc ++ before, c_slash :: c_slash :: rest).
Proof.
  induction before as [|x b IH]; intros acc pc Hs Hc.
  - unfold colon_ok in Hc. cbn [rev] in Hc. subst pc. cbn [app]. rewrite find_comment_eq.
    rewrite N.eqb_refl. cbn [andb negb]. rewrite app_nil_r. reflexivity.
  - rewrite has_char_cons in Hs. apply orb_false_iff in Hs. destruct Hs as [Hx Hs].
    rewrite N.eqb_sym in Hx.
    assert (Hc' : colon_ok b (x =? c_colon)).
    { unfold colon_ok in *. cbn [rev] in Hc. destruct (rev b) as [|c r]; cbn [app] in Hc; exact Hc. }
    assert (E : find_comment pc acc ((x :: b) ++ c_slash :: c_slash :: rest) =
                find_comment (x =? c_colon) (x :: acc) (b ++ c_slash :: c_slash :: rest)).
    { destruct b as [|y b']; cbn [app]; rewrite find_comment_eq, Hx; reflexivity. }
    rewrite E, (IH (x :: acc) (x =? c_colon) Hs Hc'). cbn [rev]. rewrite <- app_assoc. reflexivity.
Qed.

Lemma replace_go_skip (old new a t : list N) : replace_go old new (length a) (a ++ t) = replace_go old new O t.
Proof. induction a as [|x a IH]; cbn [length app]; [reflexivity|]. cbn [replace_go]. exact IH. Qed.

Lemma replace_go_O (old new : list N) c (s : list N) :
  replace_go old new O (c :: s) =
  if starts_with old (c :: s) then new ++ replace_go old new (Nat.pred (length old)) s
  else c :: replace_go old new O s.
Proof. reflexivity. Qed.

Lemma replace_comment (before rest ph nl : list N) :
  has_char c_slash before = false -> line_end nl ->
  replace_all (c_slash :: c_slash :: rest) ph (before ++ (c_slash :: c_slash :: rest) ++ nl) = before ++ ph ++ nl.
Proof.
  intros Hs Hnl. unfold replace_all.
  induction before as [|x b IH].
  - cbn [app]. rewrite replace_go_O.
    change (c_slash :: c_slash :: rest ++ nl) with ((c_slash :: c_slash :: rest) ++ nl).
    rewrite starts_with_app. cbn [length Nat.pred].
    change (S (length rest)) with (length (c_slash :: rest)).
    change (c_slash :: rest ++ nl) with ((c_slash :: rest) ++ nl).
    rewrite replace_go_skip.
    destruct Hnl as [-> | ->]; [reflexivity|].
    rewrite replace_go_O. cbn [starts_with].
    replace (c_slash =? c_lf) with false by reflexivity. cbn [andb replace_go]. reflexivity.
  - rewrite has_char_cons in Hs. apply orb_false_iff in Hs. destruct Hs as [Hx Hs].
    cbn [app]. rewrite replace_go_O. cbn [starts_with]. rewrite Hx. cbn [andb].
    f_equal. apply IH. exact Hs.
Qed.

Lemma comment_body_no_lf (before rest : list N) : no_lf before -> no_lf rest ->
  has_char c_lf (before ++ c_slash :: c_slash :: rest) = false.
Proof.
  unfold no_lf. intros Hb Hr. rewrite has_char_app', Hb. rewrite !has_char_cons, Hr. reflexivity.
Qed.

Lemma no_colon_end_ok (before : list N) : no_colon_end before -> colon_ok before false.
Proof. unfold no_colon_end, colon_ok. destruct (rev before); intros H; [reflexivity|exact H]. Qed.

Lemma extract_line_comment_gen : forall comments (before rest nl : list N) count,
  no_slash before -> no_colon_end before -> no_lf rest -> no_lf before -> line_end nl ->
  extract_line_comment comments count (before ++ (c_slash :: c_slash :: rest) ++ nl) =
    (before ++ (if comments then placeholder w_LINECOMMENT (Z.to_N (counter_next count)) else []) ++ nl,
     counter_next count, Some (Z.to_N (counter_next count), c_slash :: c_slash :: rest)).
Proof.
  intros comments before rest nl count Hs Hc Hr Hb Hnl. unfold extract_line_comment.
  rewrite app_assoc, (chomp_lf_spec _ nl (comment_body_no_lf before rest Hb Hr) Hnl).
  rewrite (find_comment_spec rest before [] false Hs (no_colon_end_ok _ Hc)). cbn [rev app].
  cbv zeta. reflexivity.
Qed.

Lemma extract_line_comment_spec : forall before rest nl count,
  no_slash before -> no_colon_end before -> no_lf rest -> no_lf before -> line_end nl ->
  let cmt := c_slash :: c_slash :: rest in
  let k := counter_next count in
  extract_line_comment true count (before ++ cmt ++ nl) =
    (before ++ placeholder w_LINECOMMENT (Z.to_N k) ++ nl, k, Some (Z.to_N k, cmt)).
Proof.
  intros before rest nl count Hs Hc Hr Hb Hnl. cbv zeta.
  exact (extract_line_comment_gen true before rest nl count Hs Hc Hr Hb Hnl).
Qed.

Lemma extract_line_comment_off : forall before rest nl count,
  no_slash before -> no_colon_end before -> no_lf rest -> no_lf before -> line_end nl ->
  fst (fst (extract_line_comment false count (before ++ c_slash :: c_slash :: rest ++ nl))) = before ++ nl.
Proof.
  intros before rest nl count Hs Hc Hr Hb Hnl.
  change (before ++ c_slash :: c_slash :: rest ++ nl) with (before ++ (c_slash :: c_slash :: rest) ++ nl).
  rewrite (extract_line_comment_gen false before rest nl count Hs Hc Hr Hb Hnl). reflexivity.
Qed.

(* ------------------------------------------------------------------------------------------ *)
(* C02 : spellings of booleans and none                                                        *)

Definition letter (c : N) : Prop := is_upper c || is_lower c = true.

Lemma letters_of_lower : forall (s w : list N), lower s = w -> forallb is_lower w = true -> Forall letter s.
Proof.
  induction s as [|c s IH]; intros w E Hw; [constructor|].
  cbn [lower map] in E. subst w. cbn [forallb] in Hw. apply andb_true_iff in Hw. destruct Hw as [Hc Hw].
  constructor; [|exact (IH _ eq_refl Hw)].
  unfold letter, to_lower in *. destruct (is_upper c); [reflexivity|exact Hc].
Qed.

Lemma letter_numch c : letter c -> numch c.
Proof. unfold letter, numch. unfold_chars. intros H. split; lia. Qed.

Lemma letter_not_digit c : letter c -> is_digit c = false.
Proof. unfold letter. unfold_chars. lia. Qed.

Lemma letter_not_dot c : letter c -> c <> c_dot.
Proof. unfold letter. unfold_chars. lia. Qed.

Lemma letters_no_digit (s : list N) c : Forall letter s -> In c s -> is_digit c = true -> False.
Proof.
  intros Hs Hc Hd. rewrite Forall_forall in Hs. pose proof (letter_not_digit c (Hs c Hc)). congruence.
Qed.

Lemma digits1_In ds : digits1 ds -> exists c, In c ds /\ is_digit c = true.
Proof.
  intros [Hd Hne]. destruct ds as [|c ds]; [congruence|]. exists c. split; [left; reflexivity|].
  inversion Hd; assumption.
Qed.

Lemma letters_not_int (s : list N) : Forall letter s -> ~ int_lit s.
Proof.
  intros Hs (sg & ds & e & E & _ & Hd & _). destruct (digits1_In ds Hd) as (c & Hc & Hdc).
  apply (letters_no_digit s c Hs); [|exact Hdc]. subst s. apply in_or_app. right. apply in_or_app. left. exact Hc.
Qed.

Lemma letters_not_float (s : list N) : Forall letter s -> ~ float_lit s.
Proof.
  intros Hs (sg & m & x & e & E & _ & Hm & _).
  assert (Hin : forall c, In c m -> In c s).
  { intros c Hc. subst s. apply in_or_app. right. apply in_or_app. left. exact Hc. }
  destruct Hm as [Hd | (d1 & d2 & Em & _)].
  - destruct (digits1_In m Hd) as (c & Hc & Hdc). exact (letters_no_digit s c Hs (Hin c Hc) Hdc).
  - assert (Hdot : In c_dot s). { apply Hin. subst m. apply in_or_app. right. left. reflexivity. }
    rewrite Forall_forall in Hs. exact (letter_not_dot _ (Hs _ Hdot) eq_refl).
Qed.

Lemma letters_not_reserved (s : list N) : Forall letter s -> ~ reserved s.
Proof.
  intros Hs [-> | [-> | ->]]; inversion Hs as [|c l Hc _]; subst; revert Hc; unfold letter; unfold_chars; lia.
Qed.

Lemma letters_facts (s : list N) : s <> [] -> Forall letter s ->
  remove_quotes s <> [] /\ ~ reserved s /\ ~ int_lit s /\ ~ float_lit s /\ word s = lower s.
Proof.
  intros Hne Hs.
  assert (Hn : Forall numch s). { revert Hs. apply Forall_impl. exact letter_numch. }
  split; [|split; [|split; [|split]]].
  - rewrite (remove_quotes_noquote s (numch_noquote s Hn)). exact Hne.
  - exact (letters_not_reserved s Hs).
  - exact (letters_not_int s Hs).
  - exact (letters_not_float s Hs).
  - unfold word. pose proof (strip_lit s [] Hne Hn (or_introl eq_refl)) as E. rewrite app_nil_r in E.
    rewrite E. reflexivity.
Qed.

Lemma spelled_facts (s w : list N) : lower s = w -> forallb is_lower w = true -> w <> [] ->
  remove_quotes s <> [] /\ ~ reserved s /\ ~ int_lit s /\ ~ float_lit s /\ word s = w.
Proof.
  intros E Hw Hne.
  assert (Hs : s <> []). { intros ->. apply Hne. rewrite <- E. reflexivity. }
  destruct (letters_facts s Hs (letters_of_lower s w E Hw)) as (A & B & C & D & W).
  repeat split; try assumption. rewrite W. exact E.
Qed.

Lemma classify_parse s v : classify s v -> parse_value s = Ok v.
Proof.
  intros H. destruct (parse_value_table s) as (v' & E & H'). rewrite E.
  rewrite (classify_functional s v' v H' H). reflexivity.
Qed.

Lemma bool_none_spellings : forall s,
  ((lower s = w_true \/ lower s = w_on) -> parse_value s = Ok (SBool true)) /\
  ((lower s = w_false \/ lower s = w_off) -> parse_value s = Ok (SBool false)) /\
  ((lower s = w_none \/ lower s = w_null) -> parse_value s = Ok SNone).
Proof.
  intros s. split; [|split]; intros H; apply classify_parse.
  - assert (F : exists w, lower s = w /\ forallb is_lower w = true /\ w <> [] /\ (w = w_true \/ w = w_on)).
    { destruct H as [H|H]; eexists; (split; [exact H|]); (split; [reflexivity|]); (split; [discriminate|]); tauto. }
    destruct F as (w & E & Hw & Hne & Hor). destruct (spelled_facts s w E Hw Hne) as (A & B & C & D & W).
    apply cl_true; try assumption. rewrite W. exact Hor.
  - assert (F : exists w, lower s = w /\ forallb is_lower w = true /\ w <> [] /\ (w = w_false \/ w = w_off)).
    { destruct H as [H|H]; eexists; (split; [exact H|]); (split; [reflexivity|]); (split; [discriminate|]); tauto. }
    destruct F as (w & E & Hw & Hne & Hor). destruct (spelled_facts s w E Hw Hne) as (A & B & C & D & W).
    apply cl_false; try assumption. rewrite W. exact Hor.
  - assert (F : exists w, lower s = w /\ forallb is_lower w = true /\ w <> [] /\ (w = w_none \/ w = w_null)).
    { destruct H as [H|H]; eexists; (split; [exact H|]); (split; [reflexivity|]); (split; [discriminate|]); tauto. }
    destruct F as (w & E & Hw & Hne & Hor). destruct (spelled_facts s w E Hw Hne) as (A & B & C & D & W).
    apply cl_none; try assumption. rewrite W. exact Hor.
Qed.

(* ------------------------------------------------------------------------------------------ *)
(* C03 : remove_trailing_spaces is idempotent                                                  *)

Lemma lstrip_idem (s : list N) : lstrip (lstrip s) = lstrip s.
Proof.
  induction s as [|c s IH]; [reflexivity|]. cbn [lstrip]. destruct (is_space c) eqn:E; [exact IH|].
  cbn [lstrip]. rewrite E. reflexivity.
Qed.

Lemma rstrip_idem (s : list N) : rstrip (rstrip s) = rstrip s.
Proof. unfold rstrip. rewrite rev_involutive, lstrip_idem. reflexivity. Qed.

Lemma lstrip_suffix (s : list N) : exists p, s = p ++ lstrip s.
Proof.
  induction s as [|c s [p IH]]; [exists []; reflexivity|]. cbn [lstrip]. destruct (is_space c).
  - exists (c :: p). cbn [app]. f_equal. exact IH.
  - exists []. reflexivity.
Qed.

Lemma rstrip_prefix (s : list N) : exists q, s = rstrip s ++ q.
Proof.
  unfold rstrip. destruct (lstrip_suffix (rev s)) as [p E]. exists (rev p).
  rewrite <- rev_app_distr, <- E, rev_involutive. reflexivity.
Qed.

Lemma rstrip_no_lf (s : list N) : has_char c_lf s = false -> has_char c_lf (rstrip s) = false.
Proof.
  intros H. destruct (rstrip_prefix s) as [q E]. rewrite E, has_char_app' in H.
  apply orb_false_iff in H. exact (proj1 H).
Qed.

Lemma split_lines_go_line (t : list N) : forall (b cur : list N), has_char c_lf b = false ->
  split_lines_go cur (b ++ c_lf :: t) = (rev cur ++ b ++ [c_lf]) :: split_lines_go [] t.
Proof.
  induction b as [|x b IH]; intros cur Hb.
  - cbn [app split_lines_go]. rewrite N.eqb_refl. cbn [rev]. reflexivity.
  - rewrite has_char_cons in Hb. apply orb_false_iff in Hb. destruct Hb as [Hx Hb]. rewrite N.eqb_sym in Hx.
    cbn [app split_lines_go]. rewrite Hx, (IH (x :: cur) Hb). cbn [rev]. rewrite <- app_assoc. reflexivity.
Qed.

Lemma split_lines_go_last : forall (b cur : list N), has_char c_lf b = false ->
  split_lines_go cur b = match cur, b with [], [] => [] | _, _ => [rev cur ++ b] end.
Proof.
  induction b as [|x b IH]; intros cur Hb.
  - cbn [split_lines_go]. destruct cur; [reflexivity|]. rewrite app_nil_r. reflexivity.
  - rewrite has_char_cons in Hb. apply orb_false_iff in Hb. destruct Hb as [Hx Hb]. rewrite N.eqb_sym in Hx.
    cbn [split_lines_go]. rewrite Hx, (IH (x :: cur) Hb). cbn [rev]. rewrite <- app_assoc.
    destruct cur; reflexivity.
Qed.

Lemma rstrip_line_lf (b : list N) : rstrip_line (b ++ [c_lf]) = rstrip b ++ [c_lf].
Proof. unfold rstrip_line. rewrite rev_app_distr. cbn [rev app]. rewrite N.eqb_refl, rev_involutive. reflexivity. Qed.

Lemma rstrip_line_last (b : list N) : has_char c_lf b = false -> rstrip_line b = rstrip b.
Proof.
  intros Hb. unfold rstrip_line. destruct (rev b) as [|c r] eqn:Er.
  - apply rev_nil_inv in Er. subst. reflexivity.
  - assert (Hc : In c b). { apply in_rev. rewrite Er. left. reflexivity. }
    rewrite (has_char_false_In _ _ Hb c Hc). reflexivity.
Qed.

Lemma rts_line (b t : list N) : has_char c_lf b = false ->
  remove_trailing_spaces (b ++ c_lf :: t) = rstrip b ++ c_lf :: remove_trailing_spaces t.
Proof.
  intros Hb. unfold remove_trailing_spaces, split_lines_lf. rewrite (split_lines_go_line t b [] Hb).
  cbn [rev app flat_map]. rewrite rstrip_line_lf, <- app_assoc. reflexivity.
Qed.

Lemma rts_last (b : list N) : has_char c_lf b = false -> remove_trailing_spaces b = rstrip b.
Proof.
  intros Hb. unfold remove_trailing_spaces, split_lines_lf. rewrite (split_lines_go_last b [] Hb).
  destruct b as [|x b]; [reflexivity|]. cbn [rev app flat_map]. rewrite app_nil_r. apply rstrip_line_last. exact Hb.
Qed.

Lemma lines_ind (P : list N -> Prop) :
  (forall b, has_char c_lf b = false -> P b) ->
  (forall b t, has_char c_lf b = false -> P t -> P (b ++ c_lf :: t)) ->
  forall s, P s.
Proof.
  intros H1 H2 s.
  assert (G : forall pre, has_char c_lf pre = false -> P (pre ++ s)).
  { induction s as [|c s IH]; intros pre Hp.
    - rewrite app_nil_r. apply H1. exact Hp.
    - destruct (c =? c_lf) eqn:E.
      + apply N.eqb_eq in E. subst c. apply H2; [exact Hp|]. apply (IH []). reflexivity.
      + change (c :: s) with ([c] ++ s). rewrite app_assoc. apply IH.
        rewrite has_char_app', Hp. rewrite has_char_cons, N.eqb_sym, E. reflexivity. }
  apply (G []). reflexivity.
Qed.

Lemma remove_trailing_spaces_idem : forall s,
  remove_trailing_spaces (remove_trailing_spaces s) = remove_trailing_spaces s.
Proof.
  intros s. pattern s. apply lines_ind; clear s.
  - intros b Hb. rewrite (rts_last b Hb), (rts_last _ (rstrip_no_lf b Hb)). apply rstrip_idem.
  - intros b t Hb IH. rewrite (rts_line b t Hb), (rts_line _ _ (rstrip_no_lf b Hb)), rstrip_idem, IH. reflexivity.
Qed.

(* ------------------------------------------------------------------------------------------ *)
(* C02 : delimiter separation + tokenising = a direct scanner                                  *)

Definition emit (cur : list N) (l : list (list N)) : list (list N) :=
  match cur with [] => l | _ => rev cur :: l end.

(* white space ends the current word, a delimiter ends the current word and is a word by itself *)
Fixpoint toks_go (cur : list N) (s : list N) : list (list N) :=
  match s with
  | [] => emit cur []
  | c :: s' => if is_space c then emit cur (toks_go [] s')
               else if is_delim c then emit cur ([c] :: toks_go [] s')
               else toks_go (c :: cur) s'
  end.

Definition words_go (cur s : list N) : list (list N) := filter nonempty (split_ws_go cur s).

Lemma delim_not_space c : is_delim c = true -> is_space c = false.
Proof. unfold is_delim. unfold_chars. lia. Qed.

Lemma filter_emit (cur : list N) (L : list (list N)) :
  filter nonempty (rev cur :: L) = emit cur (filter nonempty L).
Proof.
  destruct cur as [|x r]; [reflexivity|]. cbn [filter emit].
  destruct (rev (x :: r)) as [|y q] eqn:E; [apply rev_nil_inv in E; discriminate E|reflexivity].
Qed.

Lemma words_go_space cur (c : N) (s : list N) : is_space c = true -> words_go cur (c :: s) = emit cur (words_go [] s).
Proof. intros H. unfold words_go. cbn [split_ws_go]. rewrite H. apply filter_emit. Qed.

Lemma words_go_char cur (c : N) (s : list N) : is_space c = false -> words_go cur (c :: s) = words_go (c :: cur) s.
Proof. intros H. unfold words_go. cbn [split_ws_go]. rewrite H. reflexivity. Qed.

Lemma words_go_nil cur : words_go cur [] = emit cur [].
Proof. unfold words_go. cbn [split_ws_go]. apply filter_emit. Qed.

Lemma collapse_words : forall (s : list N),
  (forall cur, words_go cur (collapse_ws false s) = words_go cur s) /\
  words_go [] (collapse_ws true s) = words_go [] s.
Proof.
  induction s as [|c s [IH1 IH2]]; [split; reflexivity|].
  cbn [collapse_ws]. destruct (is_space c) eqn:E.
  - split.
    + intros cur. rewrite (words_go_space cur c_sp _ eq_refl), (words_go_space cur c s E), IH2. reflexivity.
    + rewrite (words_go_space [] c s E). exact IH2.
  - split.
    + intros cur. rewrite !(words_go_char _ c _ E). apply IH1.
    + rewrite !(words_go_char _ c _ E). apply IH1.
Qed.

Lemma pad_words : forall (s cur : list N), words_go cur (pad_delims s) = toks_go cur s.
Proof.
  induction s as [|c s IH]; intros cur.
  - cbn [pad_delims flat_map toks_go]. apply words_go_nil.
  - unfold pad_delims. cbn [flat_map toks_go]. fold (pad_delims s).
    destruct (is_delim c) eqn:Ed.
    + pose proof (delim_not_space c Ed) as Es. rewrite Es. cbn [app].
      rewrite (words_go_space cur c_sp _ eq_refl), (words_go_char [] c _ Es), (words_go_space [c] c_sp _ eq_refl), IH.
      reflexivity.
    + cbn [app]. destruct (is_space c) eqn:Es.
      * rewrite (words_go_space cur c _ Es), IH. reflexivity.
      * rewrite (words_go_char cur c _ Es). apply IH.
Qed.

Lemma tokens_scanner (s : list N) : filter nonempty (tokenize (separate_delimiters s)) = toks_go [] s.
Proof.
  unfold tokenize, separate_delimiters, split_ws. fold (words_go [] (collapse_ws false (pad_delims s))).
  rewrite (proj1 (collapse_words (pad_delims s)) []). apply pad_words.
Qed.

(* ---- the scanner on renderings --------------------------------------------------------------- *)

Lemma toks_go_ws (w t : list N) : ws_run w -> toks_go [] (w ++ t) = toks_go [] t.
Proof.
  intros Hw. induction Hw as [|c w Hc Hw IH]; [reflexivity|]. cbn [app toks_go]. rewrite Hc. exact IH.
Qed.

Lemma toks_go_word (x : list N) : forall (cur t : list N),
  Forall (fun c => is_space c = false /\ is_delim c = false) x -> toks_go cur (x ++ t) = toks_go (rev x ++ cur) t.
Proof.
  induction x as [|c x IH]; intros cur t Hx; [reflexivity|].
  inversion Hx as [|c' x' [Hs Hd] Hx']; subst. cbn [app toks_go]. rewrite Hs, Hd.
  rewrite (IH (c :: cur) t Hx'). cbn [rev]. rewrite <- app_assoc. reflexivity.
Qed.

(* the text continues with nothing, white space or a delimiter *)
Definition brk (t : list N) : Prop :=
  match t with [] => True | c :: _ => is_space c = true \/ is_delim c = true end.

Lemma toks_go_brk (cur t : list N) : brk t -> toks_go cur t = emit cur (toks_go [] t).
Proof.
  destruct t as [|c t]; intros H; [reflexivity|]. cbn [brk] in H. cbn [toks_go].
  destruct H as [H|H].
  - rewrite H. reflexivity.
  - rewrite (delim_not_space c H), H. reflexivity.
Qed.

Lemma toks_go_delim (d : N) (t : list N) : is_delim d = true -> toks_go [] (d :: t) = [d] :: toks_go [] t.
Proof. intros H. cbn [toks_go]. rewrite (delim_not_space d H), H. reflexivity. Qed.

Lemma emit_word (x : list N) L : x <> [] -> emit (rev x) L = x :: L.
Proof.
  intros Hx. unfold emit. destruct (rev x) as [|c r] eqn:E; [apply rev_nil_inv in E; contradiction|].
  rewrite <- E, rev_involutive. reflexivity.
Qed.

Lemma word_then_brk (x t : list N) : word_lexeme x -> brk t -> toks_go [] (x ++ t) = x :: toks_go [] t.
Proof.
  intros [Hne Hx] Hb. rewrite (toks_go_word x [] t Hx), app_nil_r, (toks_go_brk _ t Hb). apply emit_word. exact Hne.
Qed.

Lemma ws_run_brk (w t : list N) : ws_run w -> w <> [] -> brk (w ++ t).
Proof.
  intros Hw Hne. destruct w as [|c w]; [exfalso; apply Hne; reflexivity|].
  inversion Hw as [|c' w' Hc _]; subst. left. exact Hc.
Qed.

Lemma ws_run_brk0 (w : list N) : ws_run w -> brk w.
Proof. intros Hw. destruct w as [|c w]; [exact I|]. inversion Hw as [|c' w' Hc _]; subst. left. exact Hc. Qed.

Lemma toks_go_ws_only (w : list N) : ws_run w -> toks_go [] w = [].
Proof. intros Hw. rewrite <- (app_nil_r w), (toks_go_ws w [] Hw). reflexivity. Qed.

Lemma rendering_head y l (txt : list N) : rendering (y :: l) txt -> exists rest, txt = y ++ rest.
Proof.
  intros H. inversion H; subst.
  - exists []. rewrite app_nil_r. reflexivity.
  - eexists. reflexivity.
Qed.

Lemma delim_brk y (rest : list N) : delim_lexeme y -> brk (y ++ rest).
Proof. intros (d & -> & Hd). right. exact Hd. Qed.

Lemma word_not_delim (x : list N) : word_lexeme x -> delim_lexeme x -> False.
Proof.
  intros [_ Hx] (d & -> & Hd). inversion Hx as [|c l [_ Hc] _]; subst. congruence.
Qed.

Lemma layout_scan : forall ls (txt : list N), rendering ls txt -> Forall lexeme ls ->
  forall w2, ws_run w2 -> toks_go [] (txt ++ w2) = ls.
Proof.
  intros ls txt R. induction R as [|x|x y l w txt R IH Hw Hsep]; intros HL w2 Hw2.
  - cbn [app]. apply toks_go_ws_only. exact Hw2.
  - inversion HL as [|x' l' Hx _]; subst. destruct Hx as [(d & -> & Hd)|Hx].
    + cbn [app]. rewrite (toks_go_delim d w2 Hd), (toks_go_ws_only w2 Hw2). reflexivity.
    + rewrite (word_then_brk x w2 Hx (ws_run_brk0 w2 Hw2)), (toks_go_ws_only w2 Hw2). reflexivity.
  - inversion HL as [|x' l' Hx HL']; subst. specialize (IH HL' w2 Hw2).
    rewrite <- !app_assoc.
    destruct Hx as [(d & -> & Hd)|Hx].
    + cbn [app]. rewrite (toks_go_delim d _ Hd), (toks_go_ws w _ Hw), IH. reflexivity.
    + assert (Hb : brk (w ++ txt ++ w2)).
      { destruct w as [|c w'].
        - destruct Hsep as [Hsep|[Hsep|Hsep]]; [congruence|exfalso; exact (word_not_delim x Hx Hsep)|].
          destruct (rendering_head y l txt R) as [rest ->]. cbn [app]. rewrite <- app_assoc.
          apply delim_brk. exact Hsep.
        - apply ws_run_brk; [exact Hw|discriminate]. }
      rewrite (word_then_brk x _ Hx Hb), (toks_go_ws w _ Hw), IH. reflexivity.
Qed.

Lemma layout_tokens : forall ls txt w1 w2, Forall lexeme ls -> rendering ls txt -> ws_run w1 -> ws_run w2 ->
  filter nonempty (tokenize (separate_delimiters (w1 ++ txt ++ w2))) = ls.
Proof.
  intros ls txt w1 w2 HL R H1 H2. rewrite tokens_scanner, (toks_go_ws w1 _ H1).
  exact (layout_scan ls txt R HL w2 H2).
Qed.

Lemma layout_independent : forall ls a b, Forall lexeme ls -> rendering ls a -> rendering ls b ->
  filter nonempty (tokenize (separate_delimiters a)) = filter nonempty (tokenize (separate_delimiters b)).
Proof.
  intros ls a b HL Ra Rb.
  pose proof (layout_tokens ls a [] [] HL Ra (Forall_nil _) (Forall_nil _)) as Ea.
  pose proof (layout_tokens ls b [] [] HL Rb (Forall_nil _) (Forall_nil _)) as Eb.
  cbn [app] in Ea, Eb. rewrite app_nil_r in Ea, Eb. rewrite Ea, Eb. reflexivity.
Qed.
