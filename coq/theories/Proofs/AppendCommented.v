(* C16 on files WITH comments: append mode onto a target that holds line and block comments at any dict level.
   The class RereadTree.rereadable (SDicts with comment placeholder entries) is closed under SDict.merge of a plain dict
   of the writer domain: comment entries stay where they are, their texts are unchanged, ordinary leaves are kept,
   absent key paths are added behind the existing entries of their dict level.  Then: DictWriter.write in append mode
   onto a file the library wrote from a commented SDict, read back with DictReader.read. *)
From Coq Require Import String.
From Coq Require Import NArith ZArith List Bool Lia Permutation.
From DictIO Require Import Chars Str Value Scalar KeyPath SDict Layout Lexer TokParser Reader TreeSpec NativeSpec LayoutSpec E2ESpec MiscSpec.
From DictIO Require ScalarProofs TokProofs KeyPathProofs.
From DictIO Require Import SDictProofs WriteProofs.
From DictIO Require Import E2EProofs E2EHoles E2EInsert E2EKeyTok E2EFullProofs.
From DictIO Require Import RereadPlain RereadStr RereadTree RereadWrite RereadLex RereadNum RereadProofs RereadFix RereadOff.
From DictIO Require Import AppendSeq RereadCtabs.
Import ListNotations.
Open Scope N_scope.

(* ================================================================================================ *)
(* 1. association lists: where aset writes                                                          *)
(* ================================================================================================ *)
Lemma aset_split (k : key) (v : tree) (X : list (key * tree)) :
  (alookup k X = None /\ aset k v X = X ++ [(k, v)]) \/
  (exists A tv B, X = A ++ (k, tv) :: B /\ ~ In k (map fst A) /\ alookup k X = Some tv /\ aset k v X = A ++ (k, v) :: B).
Proof.
  induction X as [|[k0 v0] X IH]; [left; split; reflexivity|]. cbn [alookup aset].
  destruct (key_eqb k k0) eqn:E.
  - apply key_eqb_eq in E. subst k0. right. exists [], v0, X. repeat split; try reflexivity. intros [].
  - assert (Hne : k0 <> k) by (intros ->; rewrite key_eqb_refl in E; discriminate E).
    destruct IH as [[H1 H2]|(A & tv & B & H1 & H2 & H3 & H4)].
    + left. split; [exact H1|]. rewrite H2. reflexivity.
    + right. exists ((k0, v0) :: A), tv, B. split; [rewrite H1; reflexivity|]. split.
      * cbn [map fst]. intros [H|H]; [exact (Hne H)|exact (H2 H)].
      * split; [exact H3|]. rewrite H4. reflexivity.
Qed.

Lemma alookup_app_notin (k : key) (A B : list (key * tree)) : ~ In k (map fst A) -> alookup k (A ++ B) = alookup k B.
Proof.
  induction A as [|[k0 v0] A IH]; intros H; [reflexivity|]. cbn [app alookup]. cbn [map fst] in H.
  destruct (key_eqb k k0) eqn:E; [apply key_eqb_eq in E; subst k0; exfalso; apply H; left; reflexivity|].
  apply IH. intros Hin. apply H. right. exact Hin.
Qed.

Lemma aset_app_notin (k : key) (v : tree) (A B : list (key * tree)) : ~ In k (map fst A) -> aset k v (A ++ B) = A ++ aset k v B.
Proof.
  induction A as [|[k0 v0] A IH]; intros H; [reflexivity|]. cbn [app aset]. cbn [map fst] in H.
  destruct (key_eqb k k0) eqn:E; [apply key_eqb_eq in E; subst k0; exfalso; apply H; left; reflexivity|].
  rewrite IH; [reflexivity|]. intros Hin. apply H. right. exact Hin.
Qed.

(* a plain dict (simple keys everywhere): its parts *)
Lemma plain_cons ok k c l : ktree ok (Dict ((k, c) :: l)) = true -> simple_key k = true /\ ktree ok c = true /\ ktree ok (Dict l) = true.
Proof.
  rewrite ktree_dict_cons. intros H. apply andb_true_iff in H. destruct H as [H H3]. apply andb_true_iff in H. destruct H as [H1 H2].
  repeat split; assumption.
Qed.

(* ================================================================================================ *)
(* 2. maps over documents commute with the merge of a plain dict                                    *)
(* ================================================================================================ *)
(* Phi is a map over documents that works entry by entry, keeps an entry with a simple key in its place (mapping its
   value) and turns every other entry into entries whose keys are not simple (cmapg: comment entries are renamed to
   comment entries; cstrip: they are dropped) *)
Section MergeFunctor.
  Variable f : scalar -> scalar.
  Variable Phi : tree -> tree.
  Variable phi : key * tree -> list (key * tree).
  Hypothesis Phi_dict : forall X, Phi (Dict X) = Dict (flat_map phi X).
  Definition Phi' (c : tree) : tree := match c with Dict d => Phi (Dict d) | _ => map_leaves f c end.
  Hypothesis phi_simple : forall k c, simple_key k = true -> phi (k, c) = [(k, Phi' c)].
  Hypothesis phi_other : forall k c k', simple_key k = false -> In k' (map fst (phi (k, c))) -> simple_key k' = false.
  Hypothesis Phi_plain : forall d, ktree (fun _ => true) (Dict d) = true -> Phi (Dict d) = map_leaves f (Dict d).

  Lemma phi_keys k k0 c0 : simple_key k = true -> k0 <> k -> ~ In k (map fst (phi (k0, c0))).
  Proof.
    intros Hk Hne Hin. destruct (simple_key k0) eqn:E0.
    - rewrite (phi_simple k0 c0 E0) in Hin. cbn [map fst] in Hin. destruct Hin as [H|[]]. exact (Hne H).
    - rewrite (phi_other k0 c0 k E0 Hin) in Hk. discriminate Hk.
  Qed.

  Lemma flat_phi_notin k A : simple_key k = true -> ~ In k (map fst A) -> ~ In k (map fst (flat_map phi A)).
  Proof.
    intros Hk. induction A as [|[k0 c0] A IH]; intros Hn; [intros []|]. cbn [flat_map]. rewrite map_app. intros Hin.
    cbn [map fst] in Hn. apply in_app_or in Hin. destruct Hin as [Hin|Hin].
    - apply (phi_keys k k0 c0 Hk); [|exact Hin]. intros ->. apply Hn. left. reflexivity.
    - apply IH; [|exact Hin]. intros H. apply Hn. right. exact H.
  Qed.

  Lemma alookup_flat_phi k X : simple_key k = true -> alookup k (flat_map phi X) = option_map Phi' (alookup k X).
  Proof.
    intros Hk. induction X as [|[k0 c0] X IH]; [reflexivity|]. cbn [flat_map alookup].
    destruct (key_eqb k k0) eqn:E.
    - apply key_eqb_eq in E. subst k0. rewrite (phi_simple k c0 Hk). cbn [app alookup]. rewrite key_eqb_refl. reflexivity.
    - rewrite alookup_app_notin; [exact IH|]. apply (phi_keys k k0 c0 Hk). intros ->. rewrite key_eqb_refl in E. discriminate E.
  Qed.

  Lemma aset_flat_phi k v X : simple_key k = true -> flat_map phi (aset k v X) = aset k (Phi' v) (flat_map phi X).
  Proof.
    intros Hk. destruct (aset_split k v X) as [[H1 H2]|(A & tv & B & H1 & H2 & H3 & H4)].
    - rewrite H2, flat_map_app. cbn [flat_map]. rewrite (phi_simple k v Hk), app_nil_r.
      symmetry. apply aset_notin. rewrite (alookup_flat_phi k X Hk), H1. reflexivity.
    - rewrite H4, H1, !flat_map_app. cbn [flat_map]. rewrite !(phi_simple k _ Hk). cbn [app].
      rewrite (aset_app_notin k _ _ _ (flat_phi_notin k A Hk H2)). cbn [aset]. rewrite key_eqb_refl. reflexivity.
  Qed.

  Lemma Phi'_plain t : ktree (fun _ => true) t = true -> Phi' t = map_leaves f t.
  Proof. intros H. destruct t as [v|d|l]; [reflexivity|exact (Phi_plain d H)|reflexivity]. Qed.

  Theorem merge_functor : forall ov tv, ktree (fun _ => true) ov = true ->
    Phi' (merge_spec_tree tv ov) = merge_spec_tree (Phi' tv) (map_leaves f ov).
  Proof.
    induction ov as [v0|osub IH|ts _] using tree_ind'; intros tv Ho.
    - cbn [map_leaves]. rewrite !merge_spec_tree_nondict_r; [reflexivity|intros a; discriminate|intros a; discriminate].
    - destruct tv as [v1|tsub|ts1].
      + rewrite !merge_spec_tree_nondict_l; [reflexivity|cbn [Phi']; intros a; discriminate|intros a; discriminate].
      + rewrite TokProofs.map_leaves_dict, merge_spec_tree_dict. cbn [Phi']. rewrite !Phi_dict, merge_spec_tree_dict. f_equal.
        revert tsub Ho. induction IH as [|[k c] o Hc _ IHo]; intros tsub Ho; [reflexivity|].
        destruct (plain_cons _ _ _ _ Ho) as (Hk & Hcp & Hop). cbn [map fold_left]. rewrite (IHo _ Hop). f_equal.
        unfold mstep. cbn [TokProofs.mkv fst snd]. rewrite (aset_flat_phi k _ tsub Hk), (alookup_flat_phi k tsub Hk). f_equal.
        destruct (alookup k tsub) as [tv'|]; cbn [option_map mval].
        * cbn [snd] in Hc. exact (Hc tv' Hcp).
        * exact (Phi'_plain c Hcp).
      + rewrite !merge_spec_tree_nondict_l; [reflexivity|cbn [Phi']; rewrite TokProofs.map_leaves_lst; intros a; discriminate|intros a; discriminate].
    - rewrite TokProofs.map_leaves_lst. rewrite !merge_spec_tree_nondict_r; [reflexivity|intros a; discriminate|intros a; discriminate].
  Qed.

  Corollary merge_functor_dict X m : ktree (fun _ => true) (Dict m) = true ->
    Phi (Dict (merge_spec X m)) = Dict (merge_spec (kvs_of (Phi (Dict X))) (kvs_of (map_leaves f (Dict m)))).
  Proof.
    intros Hm. pose proof (merge_functor (Dict m) (Dict X) Hm) as H. rewrite merge_spec_tree_dict in H. cbn [Phi'] in H.
    rewrite merge_spec_fold, H, Phi_dict, TokProofs.map_leaves_dict, merge_spec_tree_dict. cbn [kvs_of]. rewrite merge_spec_fold. reflexivity.
  Qed.
End MergeFunctor.

(* ---- the two instances: cmapg (canonical form, leaves read back) and cstrip (the ordinary data) -------------------- *)
Lemma flat_map_single {A B} (g : A -> B) (l : list A) : flat_map (fun x => [g x]) l = map g l.
Proof. induction l as [|x l IH]; [reflexivity|]. cbn [flat_map map app]. rewrite IH. reflexivity. Qed.

Lemma is_cm_not_simple n : is_cm n = true -> simple_key (KS n) = false.
Proof.
  intros Hn. destruct (simple_key (KS n)) eqn:E; [|reflexivity]. pose proof (cm_entry_simple (KS n) (Leaf (SStr [])) E) as H.
  cbn [cm_entry] in H. rewrite Hn in H. discriminate H.
Qed.

Lemma cmapg_plain g f : forall t, ktree (fun _ => true) t = true -> match t with Dict _ => cmapg g f t = map_leaves f t | _ => True end.
Proof.
  induction t as [v|kvs IH|ts IH] using tree_ind'; intros H; try exact I.
  rewrite cmapg_dict, TokProofs.map_leaves_dict. f_equal. induction IH as [|[k c] kvs Hc _ IHk]; [reflexivity|].
  destruct (plain_cons _ _ _ _ H) as (Hk & Hcp & Hr). cbn [map]. rewrite (IHk Hr). f_equal.
  unfold cmap_entry, TokProofs.mkv. rewrite (cm_entry_simple k c Hk). cbn [fst snd]. f_equal.
  destruct c as [v|d|l]; try reflexivity. cbn [snd] in Hc. exact (Hc Hcp).
Qed.

Lemma cstrip_plain : forall t, ktree (fun _ => true) t = true -> match t with Dict _ => cstrip t = t | _ => True end.
Proof.
  induction t as [v|kvs IH|ts IH] using tree_ind'; intros H; try exact I.
  rewrite cstrip_dict. f_equal. induction IH as [|[k c] kvs Hc _ IHk]; [reflexivity|].
  destruct (plain_cons _ _ _ _ H) as (Hk & Hcp & Hr). cbn [flat_map]. rewrite (IHk Hr).
  unfold cstrip_entry. rewrite (cm_entry_simple k c Hk). cbn [fst snd app]. f_equal. f_equal.
  destruct c as [v|d|l]; try reflexivity. cbn [snd] in Hc. exact (Hc Hcp).
Qed.

Section CmapgMerge.
  Variable gn gx : str -> str -> str.
  Variable f : scalar -> scalar.
  Hypothesis Hgn : forall n x, is_cm n = true -> is_cm (gn n x) = true.
  Notation G := (gkv gn gx).

  Lemma cmapg_merge X m : ktree (fun _ => true) (Dict m) = true ->
    cmapg G f (Dict (merge_spec X m)) = Dict (merge_spec (kvs_of (cmapg G f (Dict X))) (kvs_of (map_leaves f (Dict m)))).
  Proof.
    apply (merge_functor_dict f (cmapg G f) (fun kc => [cmap_entry G f kc])).
    - intros Y. rewrite cmapg_dict, flat_map_single. reflexivity.
    - intros k c Hk. unfold cmap_entry. rewrite (cm_entry_simple k c Hk). cbn [fst snd]. destruct c; reflexivity.
    - intros k c k' Hk Hin. cbn [map fst] in Hin. destruct Hin as [<-|[]]. unfold cmap_entry.
      destruct (cm_entry (k, c)) as [[n x]|] eqn:Ec.
      + destruct (cm_entry_inv _ _ _ Ec) as [_ Hn]. unfold gkv. cbn [fst]. exact (is_cm_not_simple _ (Hgn n x Hn)).
      + exact Hk.
    - intros d Hd. exact (cmapg_plain G f (Dict d) Hd).
  Qed.
End CmapgMerge.

Lemma map_leaves_idf t : map_leaves idf t = t.
Proof. exact (map_leaves_id t). Qed.

Lemma cstrip_merge X m : ktree (fun _ => true) (Dict m) = true ->
  cstrip (Dict (merge_spec X m)) = Dict (merge_spec (kvs_of (cstrip (Dict X))) m).
Proof.
  intros Hm.
  pose proof (merge_functor_dict idf cstrip cstrip_entry cstrip_dict) as H.
  rewrite H; [rewrite (map_leaves_idf (Dict m)); reflexivity| | | |exact Hm].
  - intros k c Hk. unfold cstrip_entry. rewrite (cm_entry_simple k c Hk). cbn [fst snd]. destruct c as [v|d|l]; try reflexivity.
    cbn [Phi']. rewrite (map_leaves_idf (Lst l)). reflexivity.
  - intros k c k' Hk Hin. unfold cstrip_entry in Hin. destruct (cm_entry (k, c)); [destruct Hin|].
    cbn [map fst] in Hin. destruct Hin as [<-|[]]. exact Hk.
  - intros d Hd. rewrite (map_leaves_idf (Dict d)). exact (cstrip_plain (Dict d) Hd).
Qed.

(* ================================================================================================ *)
(* 3. shape, comment events and placeholder keys of the merged document                             *)
(* ================================================================================================ *)
Lemma cshape_entry_simple k v : simple_key k = true ->
  cshape_entry (k, v) = match v with Dict d => cshape (Dict d) | c => ktree writable_leaf c end.
Proof. intros Hk. unfold cshape_entry. rewrite (cm_entry_simple k v Hk). cbn [fst snd]. rewrite Hk. destruct v; reflexivity. Qed.

Lemma plain_cshape_entry k c : simple_key k = true -> ktree writable_leaf c = true -> cshape_entry (k, c) = true.
Proof.
  intros Hk Hc. rewrite (cshape_entry_simple k c Hk). destruct c as [v|d|l]; [exact Hc|exact (plain_cshape d Hc)|exact Hc].
Qed.

Lemma cshape_merge_tree : forall ov tv, ktree writable_leaf ov = true -> cshape tv = true -> cshape (merge_spec_tree tv ov) = true.
Proof.
  induction ov as [v0|osub IH|ts _] using tree_ind'; intros tv Ho Ht.
  - rewrite merge_spec_tree_nondict_r; [exact Ht|intros a; discriminate].
  - destruct tv as [v1|tsub|ts1]; try discriminate Ht. rewrite merge_spec_tree_dict. rewrite cshape_forallb in *.
    revert tsub Ho Ht. induction IH as [|[k c] o Hc _ IHo]; intros tsub Ho Ht; [exact Ht|].
    destruct (plain_cons _ _ _ _ Ho) as (Hk & Hcp & Hop). cbn [fold_left]. apply (IHo _ Hop).
    unfold mstep. cbn [fst snd]. apply forallb_aset; [|exact Ht].
    destruct (alookup k tsub) as [tv'|] eqn:E; cbn [mval]; [|exact (plain_cshape_entry k c Hk Hcp)].
    pose proof (forallb_alookup _ k tv' tsub Ht E) as He. rewrite (cshape_entry_simple k _ Hk) in He. rewrite (cshape_entry_simple k _ Hk).
    destruct tv' as [v1|d1|l1]; try (rewrite merge_spec_tree_nondict_l; [exact He|intros a; discriminate]).
    destruct c as [v2|d2|l2]; try (rewrite merge_spec_tree_nondict_r; [exact He|intros a; discriminate]).
    cbn [snd] in Hc. pose proof (Hc (Dict d1) Hcp He) as H. rewrite merge_spec_tree_dict in *. exact H.
  - rewrite merge_spec_tree_nondict_r; [exact Ht|intros a; discriminate].
Qed.

Lemma cshape_merge X m : ktree writable_leaf (Dict m) = true -> cshape (Dict X) = true -> cshape (Dict (merge_spec X m)) = true.
Proof.
  intros Hm Hx. pose proof (cshape_merge_tree (Dict m) (Dict X) Hm Hx) as H. rewrite merge_spec_tree_dict in H.
  rewrite merge_spec_fold. exact H.
Qed.

(* the comment events *)
Lemma cms_entry_simple lvl k c : simple_key k = true -> cms_of (entry_events lvl (k, c)) = cms_of (events (S lvl) c).
Proof.
  intros Hk. unfold entry_events. rewrite (cm_entry_simple k c Hk). cbn [fst snd]. destruct c as [v|d|l]; try reflexivity.
  change (EOpen lvl k :: events (S lvl) (Dict d) ++ [EClose lvl]) with ([EOpen lvl k] ++ events (S lvl) (Dict d) ++ [EClose lvl]).
  rewrite !cms_of_app. cbn [cms_of ev_cm]. rewrite app_nil_r. reflexivity.
Qed.

Lemma plain_cms_any c lvl : ktree writable_leaf c = true -> cms_of (events lvl c) = [].
Proof. intros H. destruct c as [v|d|l]; [reflexivity|exact (plain_cms d lvl H)|reflexivity]. Qed.

Lemma cms_merge_tree : forall ov tv lvl, ktree writable_leaf ov = true ->
  cms_of (events lvl (merge_spec_tree tv ov)) = cms_of (events lvl tv).
Proof.
  induction ov as [v0|osub IH|ts _] using tree_ind'; intros tv lvl Ho.
  - rewrite merge_spec_tree_nondict_r; [reflexivity|intros a; discriminate].
  - destruct tv as [v1|tsub|ts1]; try (rewrite merge_spec_tree_nondict_l; [reflexivity|intros a; discriminate]).
    rewrite merge_spec_tree_dict.
    revert tsub Ho. induction IH as [|[k c] o Hc _ IHo]; intros tsub Ho; [reflexivity|].
    destruct (plain_cons _ _ _ _ Ho) as (Hk & Hcp & Hop). cbn [fold_left]. rewrite (IHo _ Hop).
    unfold mstep. cbn [fst snd]. cbn [snd] in Hc.
    destruct (aset_split k (mval (alookup k tsub) c) tsub) as [[H1 H2]|(A & tv' & B & H1 & H2 & H3 & H4)].
    + rewrite H2, events_app, cms_of_app, H1. cbn [mval]. rewrite events_cons, events_nil, app_nil_r, (cms_entry_simple lvl k c Hk).
      rewrite (plain_cms_any c (S lvl) Hcp), app_nil_r. reflexivity.
    + rewrite H4, H3. cbn [mval]. rewrite H1, !events_app, !events_cons, !cms_of_app, !(cms_entry_simple lvl k _ Hk).
      rewrite (Hc tv' (S lvl) Hcp). reflexivity.
  - rewrite merge_spec_tree_nondict_r; [reflexivity|intros a; discriminate].
Qed.

Lemma cms_merge X m lvl : ktree writable_leaf (Dict m) = true ->
  cms_of (events lvl (Dict (merge_spec X m))) = cms_of (events lvl (Dict X)).
Proof.
  intros Hm. pose proof (cms_merge_tree (Dict m) (Dict X) lvl Hm) as H. rewrite merge_spec_tree_dict in H.
  rewrite merge_spec_fold. exact H.
Qed.

(* the placeholder keys of a level, and the tables *)
Lemma keys_of_kind_app kd (a b : list (key * tree)) : keys_of_kind kd (a ++ b) = keys_of_kind kd a ++ keys_of_kind kd b.
Proof. unfold keys_of_kind. rewrite map_app, filter_app. reflexivity. Qed.

Lemma keys_of_kind_simple kd k (v : tree) : simple_key k = true -> keys_of_kind kd [(k, v)] = [].
Proof. intros Hk. unfold keys_of_kind. cbn [map fst filter]. rewrite (simple_kind k Hk). reflexivity. Qed.

Lemma keys_of_kind_aset kd k v X : simple_key k = true -> keys_of_kind kd (aset k v X) = keys_of_kind kd X.
Proof.
  intros Hk. destruct (aset_split k v X) as [[H1 H2]|(A & tv' & B & H1 & H2 & H3 & H4)].
  - rewrite H2, keys_of_kind_app, (keys_of_kind_simple kd k v Hk), app_nil_r. reflexivity.
  - rewrite H4, H1. change ((k, v) :: B) with ([(k, v)] ++ B). change ((k, tv') :: B) with ([(k, tv')] ++ B).
    rewrite !keys_of_kind_app, !(keys_of_kind_simple kd k _ Hk). reflexivity.
Qed.

Lemma In_aset k v X (e : key * tree) : In e (aset k v X) -> e = (k, v) \/ In e X.
Proof.
  destruct (aset_split k v X) as [[H1 H2]|(A & tv' & B & H1 & H2 & H3 & H4)].
  - rewrite H2. intros H. apply in_app_or in H. destruct H as [H|[H|[]]]; [right; exact H|left; symmetry; exact H].
  - rewrite H4, H1. intros H. apply in_app_or in H. destruct H as [H|[H|H]].
    + right. apply in_or_app. left. exact H.
    + left. symmetry. exact H.
    + right. apply in_or_app. right. right. exact H.
Qed.

Lemma ctabs_any_plain lc bc c : ktree writable_leaf c = true -> ctabs lc bc c.
Proof. intros H. apply ctabs_plain. exact (ktree_skeys _ _ H). Qed.

Lemma ctabs_merge_tree lc bc : forall ov tv, ktree writable_leaf ov = true -> ctabs lc bc tv -> ctabs lc bc (merge_spec_tree tv ov).
Proof.
  induction ov as [v0|osub IH|ts _] using tree_ind'; intros tv Ho Ht.
  - rewrite merge_spec_tree_nondict_r; [exact Ht|intros a; discriminate].
  - destruct tv as [v1|tsub|ts1]; try (rewrite merge_spec_tree_nondict_l; [exact Ht|intros a; discriminate]).
    rewrite merge_spec_tree_dict.
    revert tsub Ho Ht. induction IH as [|[k c] o Hc _ IHo]; intros tsub Ho Ht; [exact Ht|].
    destruct (plain_cons _ _ _ _ Ho) as (Hk & Hcp & Hop). cbn [fold_left]. apply (IHo _ Hop).
    unfold mstep. cbn [fst snd]. cbn [snd] in Hc. pose proof Ht as (T1 & T2 & _).
    apply ctabs_dict; [rewrite (keys_of_kind_aset _ k _ tsub Hk); exact T1|rewrite (keys_of_kind_aset _ k _ tsub Hk); exact T2|].
    intros k' d' Hin. apply In_aset in Hin. destruct Hin as [Heq|Hin]; [|exact (ctabs_child _ _ _ _ _ Ht Hin)].
    inversion Heq as [[E1 E2]]. rewrite E2.
    destruct (alookup k tsub) as [tv'|] eqn:E; cbn [mval]; [|exact (ctabs_any_plain lc bc c Hcp)].
    apply (Hc tv' Hcp). destruct tv' as [v1|d1|l1]; try exact I.
    exact (ctabs_child _ _ _ _ _ Ht (alookup_Some_In _ _ _ E)).
  - rewrite merge_spec_tree_nondict_r; [exact Ht|intros a; discriminate].
Qed.

Lemma ctabs_merge lc bc X m : ktree writable_leaf (Dict m) = true -> ctabs lc bc (Dict X) -> ctabs lc bc (Dict (merge_spec X m)).
Proof.
  intros Hm Hx. pose proof (ctabs_merge_tree lc bc (Dict m) (Dict X) Hm Hx) as H. rewrite merge_spec_tree_dict in H.
  rewrite merge_spec_fold. exact H.
Qed.

(* ================================================================================================ *)
(* 4. block comments first, the header: both commute with the merge                                 *)
(* ================================================================================================ *)
Lemma fold_mstep_app_notin : forall m A B, (forall k, In k (map fst m) -> ~ In k (map fst A)) ->
  fold_left mstep m (A ++ B) = A ++ fold_left mstep m B.
Proof.
  induction m as [|[k c] m IH]; intros A B H; [reflexivity|]. cbn [fold_left].
  assert (Hk : ~ In k (map fst A)) by (apply H; left; reflexivity).
  assert (Es : mstep (A ++ B) (k, c) = A ++ mstep B (k, c)).
  { unfold mstep. cbn [fst snd]. rewrite (alookup_app_notin k A B Hk). exact (aset_app_notin k _ A B Hk). }
  rewrite Es. apply IH. intros k' Hin. apply H. right. exact Hin.
Qed.

Section FilterMerge.
  Variable p : key * tree -> bool.
  Hypothesis p_simple : forall k v, simple_key k = true -> p (k, v) = false.
  Let np := fun kc => negb (p kc).

  Lemma filter_p_aset k v X : simple_key k = true -> filter p (aset k v X) = filter p X.
  Proof.
    intros Hk. destruct (aset_split k v X) as [[H1 H2]|(A & tv' & B & H1 & H2 & H3 & H4)].
    - rewrite H2, filter_app. cbn [filter]. rewrite (p_simple k v Hk), app_nil_r. reflexivity.
    - rewrite H4, H1, !filter_app. cbn [filter]. rewrite !(p_simple k _ Hk). reflexivity.
  Qed.

  Lemma alookup_filter_np k X : simple_key k = true -> alookup k (filter np X) = alookup k X.
  Proof.
    intros Hk. induction X as [|[k0 v0] X IH]; [reflexivity|]. cbn [filter alookup]. unfold np at 1.
    destruct (key_eqb k k0) eqn:E.
    - apply key_eqb_eq in E. subst k0. rewrite (p_simple k v0 Hk). cbn [negb alookup]. rewrite key_eqb_refl. reflexivity.
    - destruct (p (k0, v0)); cbn [negb alookup]; [exact IH|]. rewrite E. exact IH.
  Qed.

  Lemma filter_np_aset k v X : simple_key k = true -> filter np (aset k v X) = aset k v (filter np X).
  Proof.
    intros Hk. assert (Hnp : forall v', np (k, v') = true) by (intros v'; unfold np; rewrite (p_simple k v' Hk); reflexivity).
    induction X as [|[k0 v0] X IH].
    - cbn [aset filter]. rewrite Hnp. reflexivity.
    - cbn [aset]. destruct (key_eqb k k0) eqn:E.
      + apply key_eqb_eq in E. subst k0. cbn [filter]. rewrite !Hnp. cbn [aset]. rewrite key_eqb_refl. reflexivity.
      + cbn [filter]. destruct (np (k0, v0)); [|exact IH]. cbn [aset]. rewrite E, IH. reflexivity.
  Qed.

  Lemma filter_p_merge : forall m X, ktree (fun _ => true) (Dict m) = true -> filter p (fold_left mstep m X) = filter p X.
  Proof.
    induction m as [|[k c] m IH]; intros X Hm; [reflexivity|]. destruct (plain_cons _ _ _ _ Hm) as (Hk & _ & Hr).
    cbn [fold_left]. rewrite (IH _ Hr). unfold mstep. cbn [fst snd]. exact (filter_p_aset k _ X Hk).
  Qed.

  Lemma filter_np_merge : forall m X, ktree (fun _ => true) (Dict m) = true ->
    filter np (fold_left mstep m X) = fold_left mstep m (filter np X).
  Proof.
    induction m as [|[k c] m IH]; intros X Hm; [reflexivity|]. destruct (plain_cons _ _ _ _ Hm) as (Hk & _ & Hr).
    cbn [fold_left]. rewrite (IH _ Hr). f_equal. unfold mstep. cbn [fst snd].
    rewrite (filter_np_aset k _ X Hk), (alookup_filter_np k X Hk). reflexivity.
  Qed.

  (* the partition "p first" of the merged document is the merge into the partition *)
  Lemma partition_merge m X : ktree (fun _ => true) (Dict m) = true ->
    filter p (fold_left mstep m X) ++ filter np (fold_left mstep m X) = fold_left mstep m (filter p X ++ filter np X).
  Proof.
    intros Hm. rewrite (filter_p_merge m X Hm), (filter_np_merge m X Hm). symmetry. apply fold_mstep_app_notin.
    intros k Hin Hin'. apply in_map_iff in Hin. destruct Hin as ([k1 c1] & E1 & Hin). cbn [fst] in E1. subst k1.
    pose proof (ktree_dict_keys _ m Hm (k, c1) Hin) as Hk. cbn [fst] in Hk.
    apply in_map_iff in Hin'. destruct Hin' as ([k2 v2] & E2 & Hin'). cbn [fst] in E2. subst k2.
    apply filter_In in Hin'. destruct Hin' as [_ Hp]. rewrite (p_simple k v2 Hk) in Hp. discriminate Hp.
  Qed.
End FilterMerge.

Lemma is_bc_entry_simple k v : simple_key k = true -> is_bc_entry (k, v) = false.
Proof. intros Hk. unfold is_bc_entry. rewrite (cm_entry_simple k v Hk). reflexivity. Qed.

Lemma bk_simple k (v : tree) : simple_key k = true -> bk (k, v) = false.
Proof. intros Hk. unfold bk. cbn [fst]. exact (proj1 (simple_key_unsorted k Hk)). Qed.

Lemma csort_merge C m : ktree (fun _ => true) (Dict m) = true -> csort (merge_spec C m) = merge_spec (csort C) m.
Proof. intros Hm. rewrite !merge_spec_fold. unfold csort. exact (partition_merge is_bc_entry is_bc_entry_simple m C Hm). Qed.

(* the first entry *)
Lemma fold_mstep_head : forall m kc X, ktree (fun _ => true) (Dict m) = true ->
  exists v' X', fold_left mstep m (kc :: X) = (fst kc, v') :: X' /\ (simple_key (fst kc) = false -> v' = snd kc).
Proof.
  induction m as [|[k c] m IH]; intros [k0 v0] X Hm; [exists v0, X; split; [reflexivity|intros _; reflexivity]|].
  destruct (plain_cons _ _ _ _ Hm) as (Hk & _ & Hr). cbn [fold_left]. unfold mstep at 2. cbn [fst snd alookup aset].
  destruct (key_eqb k k0) eqn:E.
  - apply key_eqb_eq in E. subst k0. destruct (IH (k, mval (Some v0) c) X Hr) as (v' & X' & E1 & E2). cbn [fst snd] in *.
    exists v', X'. split; [exact E1|]. intros Hn. rewrite Hn in Hk. discriminate Hk.
  - destruct (IH (k0, v0) (aset k (mval (alookup k X) c) X) Hr) as (v' & X' & E1 & E2). exists v', X'. split; assumption.
Qed.

Lemma has_header_merge C m : ktree (fun _ => true) (Dict m) = true -> has_header (merge_spec C m) = has_header C.
Proof.
  intros Hm. rewrite merge_spec_fold. destruct C as [|[k0 v0] C].
  - destruct m as [|[k c] m]; [reflexivity|]. destruct (plain_cons _ _ _ _ Hm) as (Hk & _ & Hr). cbn [fold_left]. change (mstep [] (k, c)) with [(k, c)].
    destruct (fold_mstep_head m (k, c) [] Hr) as (v' & X' & E1 & _). rewrite E1. cbn [fst has_header]. rewrite (cm_entry_simple k v' Hk). reflexivity.
  - destruct (fold_mstep_head m (k0, v0) C Hm) as (v' & X' & E1 & E2). rewrite E1. cbn [fst snd has_header] in *.
    destruct (simple_key k0) eqn:Ek; [rewrite !(cm_entry_simple k0 _ Ek); reflexivity|rewrite (E2 eq_refl); reflexivity].
Qed.

Lemma hdr_merge C m : ktree (fun _ => true) (Dict m) = true -> hdr (merge_spec C m) = merge_spec (hdr C) m.
Proof.
  intros Hm. unfold hdr. rewrite (csort_merge C m Hm), (has_header_merge (csort C) m Hm).
  destruct (has_header (csort C)); [reflexivity|]. rewrite !merge_spec_fold.
  change (hdr_entry :: csort C) with ([hdr_entry] ++ csort C). rewrite fold_mstep_app_notin; [reflexivity|].
  intros k Hin [H|[]]. apply in_map_iff in Hin. destruct Hin as ([k1 c1] & E1 & Hin). cbn [fst] in E1. subst k1.
  pose proof (ktree_dict_keys _ m Hm (k, c1) Hin) as Hk. cbn [fst] in Hk. rewrite <- H in Hk.
  pose proof (cm_entry_simple _ (snd hdr_entry) Hk) as Hc. discriminate Hc.
Qed.

(* the block comment the written text begins with *)
Lemma entry_events_head lvl kc : exists e E, entry_events lvl kc = e :: E /\
  (cm_entry kc = None -> forall B R, hk_of (e :: R) B = None).
Proof.
  unfold entry_events. destruct (cm_entry kc) as [[n x]|]; [eexists; eexists; split; [reflexivity|intros H; discriminate H]|].
  destruct (snd kc) as [v|d|l]; eexists; eexists; (split; [reflexivity|intros _ B R; reflexivity]).
Qed.

Lemma hk_of_head e E1 E2 B : hk_of (e :: E1) B = hk_of (e :: E2) B.
Proof. destruct e; reflexivity. Qed.

Lemma hk_of_merge Y m B : ktree (fun _ => true) (Dict m) = true ->
  hk_of (events 0 (Dict (merge_spec Y m))) B = hk_of (events 0 (Dict Y)) B.
Proof.
  intros Hm. rewrite merge_spec_fold. destruct Y as [|[k0 v0] Y].
  - destruct m as [|[k c] m]; [reflexivity|]. destruct (plain_cons _ _ _ _ Hm) as (Hk & _ & Hr). cbn [fold_left]. change (mstep [] (k, c)) with [(k, c)].
    destruct (fold_mstep_head m (k, c) [] Hr) as (v' & X' & E1 & _). rewrite E1, events_cons. cbn [fst].
    destruct (entry_events_head 0 (k, v')) as (e & E & Ee & He). rewrite Ee. cbn [app]. exact (He (cm_entry_simple k v' Hk) B _).
  - destruct (fold_mstep_head m (k0, v0) Y Hm) as (v' & X' & E1 & E2). rewrite E1, !events_cons. cbn [fst snd] in *.
    destruct (simple_key k0) eqn:Ek.
    + destruct (entry_events_head 0 (k0, v')) as (e & E & Ee & He). destruct (entry_events_head 0 (k0, v0)) as (e0 & E0 & Ee0 & He0).
      rewrite Ee, Ee0. cbn [app]. rewrite (He (cm_entry_simple k0 v' Ek) B _), (He0 (cm_entry_simple k0 v0 Ek) B _). reflexivity.
    + rewrite (E2 eq_refl). destruct (entry_events_head 0 (k0, v0)) as (e0 & E0 & Ee0 & _). rewrite Ee0. cbn [app]. apply hk_of_head.
Qed.

(* ================================================================================================ *)
(* 5. SDict.merge of a plain dict into a re-readable SDict                                          *)
(* ================================================================================================ *)
(* no entry of the SDict that the merged-in dict addresses at the top level refers to its own key / spells its own key
   in the form of a placeholder: SDict.merge REPLACES such an entry (AppendSeq: C16_self_named_finding).  The comment
   placeholder entries themselves have this form, but a dict with simple keys never addresses them. *)
Definition merge_safe (D m : list (key * tree)) : bool :=
  forallb (fun kv => match alookup (fst kv) D with Some tv => negb (circular (fst kv) tv) | None => true end) m.

Lemma merge_keys_forall (q : key -> bool) : forall m X,
  forallb (fun kc => q (fst kc)) X = true -> forallb (fun kc : key * tree => q (fst kc)) m = true ->
  forallb (fun kc => q (fst kc)) (fold_left mstep m X) = true.
Proof.
  induction m as [|[k c] m IH]; intros X Hx Hm; [exact Hx|]. cbn [forallb fst] in Hm. apply andb_true_iff in Hm. destruct Hm as [Hk Hm].
  cbn [fold_left]. apply IH; [|exact Hm]. unfold mstep. cbn [fst snd]. apply forallb_aset; [exact Hk|exact Hx].
Qed.

Lemma cms_merge0 X m : ktree writable_leaf (Dict m) = true -> cms (Dict (merge_spec X m)) = cms (Dict X).
Proof. intros Hm. exact (cms_merge X m 0 Hm). Qed.

Lemma cstrip_kvs C : cstrip (Dict C) = Dict (kvs_of (cstrip (Dict C))).
Proof. rewrite cstrip_dict. reflexivity. Qed.

(* a canonical document the reader can take stays one *)
Lemma cdoc_ok_merge C m : cdoc_ok C = true -> wdom m = true -> cdoc_ok (merge_spec C m) = true.
Proof.
  intros Hc Hm. destruct (wdom_inv m Hm) as (M1 & M2 & M3). pose proof (ktree_skeys _ _ M2) as M2'.
  unfold cdoc_ok in *.
  apply andb_true_iff in Hc. destruct Hc as [Hc H6]. apply andb_true_iff in Hc. destruct Hc as [Hc H5].
  apply andb_true_iff in Hc. destruct Hc as [Hc H4]. apply andb_true_iff in Hc. destruct Hc as [Hc H3]. apply andb_true_iff in Hc. destruct Hc as [H1 H2].
  unfold lc_texts, bc_texts in *. rewrite (cms_merge0 C m M2), H4, H5, H6, (cshape_merge C m M2 H1), (cstrip_merge C m M2').
  rewrite (cstrip_kvs C) in H2, H3.
  rewrite (merge_spec_wf _ m H2 M1), (merge_quoted_within 11 _ m H3 M3). reflexivity.
Qed.

Lemma canon_merge lc bc D m : ktree (fun _ => true) (Dict m) = true ->
  kvs_of (canon_tree lc bc (Dict (merge_spec D m))) = merge_spec (kvs_of (canon_tree lc bc (Dict D))) m.
Proof.
  intros Hm. unfold canon_tree. rewrite (cmapg_merge (fun n _ => res_name n) (res_text lc bc) idf GN_cm D m Hm).
  rewrite (map_leaves_idf (Dict m)). reflexivity.
Qed.

Lemma sort_top_merge D m : (forall kc, In kc D -> is_include_key (fst kc) = false) -> ktree (fun _ => true) (Dict m) = true ->
  sort_top (merge_spec D m) = merge_spec (sort_top D) m.
Proof.
  intros Hd Hm. rewrite (sort_top_eq D Hd), !merge_spec_fold.
  assert (HM : forall kc, In kc (fold_left mstep m D) -> is_include_key (fst kc) = false).
  { assert (F : forallb (fun kc : key * tree => negb (is_include_key (fst kc))) (fold_left mstep m D) = true).
    { apply (merge_keys_forall (fun k => negb (is_include_key k))).
      - apply forallb_forall. intros kc Hin. rewrite (Hd kc Hin). reflexivity.
      - apply forallb_forall. intros kc Hin. rewrite (proj2 (simple_key_unsorted _ (ktree_dict_keys _ m Hm kc Hin))). reflexivity. }
    intros kc Hin. rewrite forallb_forall in F. apply negb_true_iff. exact (F kc Hin). }
  rewrite (sort_top_eq _ HM). exact (partition_merge bk bk_simple m D Hm).
Qed.

Theorem sd_merge_commented s m : rereadable s = true -> ctabs (sd_lc s) (sd_bc s) (Dict (sd_data s)) ->
  wdom m = true -> merge_safe (sd_data s) m = true ->
  let s' := mkSD (merge_spec (sd_data s) m) (sd_lc s) (sd_bc s) [] [] in
  sd_merge s m None = s' /\ rereadable s' = true /\ ctabs (sd_lc s') (sd_bc s') (Dict (sd_data s')) /\
  canon s' = merge_spec (canon s) m /\ written_doc s' = merge_spec (written_doc s) m /\
  cms (Dict (sd_data s')) = cms (Dict (sd_data s)).
Proof.
  intros Hr Hct Hm Hsafe s'. pose proof (rereadable_facts s Hr) as HW.
  destruct (wdom_inv m Hm) as (M1 & M2 & M3). pose proof (ktree_skeys _ _ M2) as M2'.
  pose proof (data_no_include s HW) as Hninc. pose proof (wf_inc s HW) as Ei. pose proof (wf_expr s HW) as Ee.
  destruct s as [D lc bc inc ex]. cbn [sd_data sd_lc sd_bc sd_inc sd_expr] in *. subst inc ex.
  assert (Hwf : wf (Dict (merge_spec D m)) = true) by exact (merge_spec_wf D m (wf_data _ HW) M1).
  assert (Hct' : ctabs lc bc (Dict (merge_spec D m))) by exact (ctabs_merge lc bc D m M2 Hct).
  assert (Ecms : cms (Dict (merge_spec D m)) = cms (Dict D)) by exact (cms_merge0 D m M2).
  assert (Ecan : canon s' = merge_spec (canon (mkSD D lc bc [] [])) m) by exact (canon_merge lc bc D m M2').
  assert (Ewd : written_doc s' = merge_spec (written_doc (mkSD D lc bc [] [])) m).
  { unfold written_doc. rewrite Ecan. exact (hdr_merge _ m M2'). }
  split; [|split; [|split; [exact Hct'|split; [exact Ecan|split; [exact Ewd|exact Ecms]]]]].
  - (* the model's merge is the first-wins merge here, and the clean-up has nothing to do *)
    unfold sd_merge. cbn [sd_data sd_lc sd_bc sd_inc sd_expr].
    assert (Hnd : NoDup (map fst m)) by (apply wf_Dict_iff in M1; tauto).
    assert (Hdep : Forall (fun kv => (depth (snd kv) <= depth (Dict m))%nat) m).
    { apply Forall_forall. intros kv Hin. pose proof (depth_child _ _ Hin) as H. cbn [depth]. apply le_S. exact H. }
    rewrite merge_kvs_top_nocirc; [| exact Hnd | | exact Hdep].
    + rewrite <- merge_spec_fold. exact (sd_clean_keep _ lc bc [] Hct' Hwf).
    + intros k tv Hin E. rewrite insert_expression_nil. unfold merge_safe in Hsafe. rewrite forallb_forall in Hsafe.
      apply in_map_iff in Hin. destruct Hin as ([k1 c1] & E1 & Hin). cbn [fst] in E1. subst k1.
      specialize (Hsafe _ Hin). cbn [fst] in Hsafe. rewrite E in Hsafe. apply negb_true_iff. exact Hsafe.
  - (* the class *)
    assert (Ehm : hdr_marked s' = hdr_marked (mkSD D lc bc [] [])).
    { unfold hdr_marked, hk_s, s'. cbn [sd_data sd_bc]. rewrite (sort_top_merge D m Hninc M2'), (hk_of_merge _ m bc M2'). reflexivity. }
    pose proof (cdoc_ok_merge _ m (wf_canon _ HW) Hm) as Hdoc. fold (written_doc (mkSD D lc bc [] [])) in Hdoc. rewrite <- Ewd in Hdoc.
    unfold rereadable in Hr |- *. rewrite Ehm. fold (written_doc s'). rewrite Hdoc. unfold s'. cbn [sd_data sd_lc sd_bc sd_inc sd_expr] in *.
    rewrite Ecms, Hwf, (cshape_merge D m M2 (wf_shape _ HW)).
    repeat match type of Hr with _ && _ = true => apply andb_true_iff in Hr; destruct Hr as [Hr ?] end.
    repeat match goal with H : ?x = true |- context [?x] => rewrite H end. reflexivity.
Qed.

(* ================================================================================================ *)
(* 6. the comment lists and the number of quoted literals of the merged document                    *)
(* ================================================================================================ *)
Lemma lc_list_merge C m : ktree writable_leaf (Dict m) = true -> lc_list (merge_spec C m) = lc_list C.
Proof. intros Hm. unfold lc_list. rewrite !lcx_texts. rewrite (cms_merge C m 0 Hm). reflexivity. Qed.
Lemma bc_list_merge C m : ktree writable_leaf (Dict m) = true -> bc_list (merge_spec C m) = bc_list C.
Proof. intros Hm. unfold bc_list. rewrite !bcx_texts. rewrite (cms_merge C m 0 Hm). reflexivity. Qed.

Lemma lits_app a b : lits (a ++ b) = lits a ++ lits b.
Proof. unfold lits. apply flat_map_app. Qed.

(* the quoted literals of the value of an entry with a simple key *)
Definition nlv (lvl : nat) (c : tree) : nat := match c with Dict d => length (lits (events (S lvl) (Dict d))) | c => nq c end.

Lemma entry_lits_simple lvl k c : simple_key k = true -> length (lits (entry_events lvl (k, c))) = nlv lvl c.
Proof.
  intros Hk. unfold entry_events. rewrite (cm_entry_simple k c Hk). cbn [fst snd]. destruct c as [v|d|l]; cbn [nlv].
  - unfold lits. cbn [flat_map ev_lits]. rewrite app_nil_r. reflexivity.
  - change (EOpen lvl k :: events (S lvl) (Dict d) ++ [EClose lvl]) with ([EOpen lvl k] ++ events (S lvl) (Dict d) ++ [EClose lvl]).
    rewrite !lits_app. unfold lits at 1 3. cbn [flat_map ev_lits app]. rewrite app_nil_r. reflexivity.
  - unfold lits. cbn [flat_map ev_lits]. rewrite app_nil_r. reflexivity.
Qed.

Lemma plain_nlv lvl c : ktree writable_leaf c = true -> nlv lvl c = nq c.
Proof.
  intros H. destruct c as [v|d|l]; try reflexivity. cbn [nlv].
  rewrite (proj2 (events_clabel (Dict d) (S lvl) [] (plain_cshape d H))). exact (plain_cnq (Dict d) H).
Qed.

Lemma lits_merge_tree : forall ov tv lvl, ktree writable_leaf ov = true ->
  (length (lits (events lvl (merge_spec_tree tv ov))) <= length (lits (events lvl tv)) + nq ov)%nat.
Proof.
  induction ov as [v0|osub IH|ts _] using tree_ind'; intros tv lvl Ho.
  - rewrite merge_spec_tree_nondict_r; [lia|intros a; discriminate].
  - destruct tv as [v1|tsub|ts1]; try (rewrite merge_spec_tree_nondict_l; [lia|intros a; discriminate]).
    rewrite merge_spec_tree_dict.
    revert tsub Ho. induction IH as [|[k c] o Hc _ IHo]; intros tsub Ho; [cbn [fold_left]; lia|].
    destruct (plain_cons _ _ _ _ Ho) as (Hk & Hcp & Hop). cbn [fold_left]. rewrite nq_dict_cons.
    specialize (IHo (mstep tsub (k, c)) Hop). cbn [snd] in Hc.
    assert (Hs : (length (lits (events lvl (Dict (mstep tsub (k, c))))) <= length (lits (events lvl (Dict tsub))) + nq c)%nat).
    { unfold mstep. cbn [fst snd].
      destruct (aset_split k (mval (alookup k tsub) c) tsub) as [[H1 H2]|(A & tv' & B & H1 & H2 & H3 & H4)].
      - rewrite H2, events_app, lits_app, app_length, H1. cbn [mval]. rewrite events_cons, events_nil, app_nil_r, (entry_lits_simple lvl k c Hk).
        rewrite (plain_nlv lvl c Hcp). lia.
      - rewrite H4, H3. cbn [mval]. rewrite H1, !events_app, !events_cons, !lits_app, !app_length, !(entry_lits_simple lvl k _ Hk).
        assert (Hv : (nlv lvl (merge_spec_tree tv' c) <= nlv lvl tv' + nq c)%nat).
        { destruct tv' as [v1|d1|l1]; try (rewrite merge_spec_tree_nondict_l; [lia|intros a; discriminate]).
          destruct c as [v2|d2|l2]; try (rewrite merge_spec_tree_nondict_r; [lia|intros a; discriminate]).
          pose proof (Hc (Dict d1) (S lvl) Hcp) as H. rewrite merge_spec_tree_dict in *. cbn [nlv]. exact H. }
        lia. }
    lia.
  - rewrite merge_spec_tree_nondict_r; [lia|intros a; discriminate].
Qed.

Lemma lit_list_merge C m : ktree writable_leaf (Dict m) = true ->
  (length (lit_list (merge_spec C m)) <= length (lit_list C) + nq (Dict m))%nat.
Proof.
  intros Hm. pose proof (lits_merge_tree (Dict m) (Dict C) 0 Hm) as H. rewrite merge_spec_tree_dict in H.
  unfold lit_list. rewrite merge_spec_fold. exact H.
Qed.

(* ================================================================================================ *)
(* 7. DictReader.read of a file without includes whose parse is a clean SDict                       *)
(* ================================================================================================ *)
Lemma tmerge_keep {V} : forall (l acc : list (N * V)), (forall kv, In kv l -> tlookup (fst kv) acc <> None) -> tmerge acc l = acc.
Proof.
  unfold tmerge. induction l as [|kv l IH]; intros acc H; [reflexivity|]. cbn [fold_left].
  destruct (tlookup (fst kv) acc) eqn:E; [|exfalso; exact (H kv (or_introl eq_refl) E)].
  apply IH. intros kv' Hin. apply H. right. exact Hin.
Qed.

Lemma tlookup_In_some {V} (l : list (N * V)) kv : In kv l -> tlookup (fst kv) l <> None.
Proof.
  induction l as [|[j x] l IH]; intros Hin; [destruct Hin|]. cbn [tlookup]. destruct (fst kv =? j) eqn:E; [discriminate|].
  destruct Hin as [<-|Hin]; [cbn [fst] in E; rewrite N.eqb_refl in E; discriminate E|exact (IH Hin)].
Qed.

Lemma tmerge_self {V} (l : list (N * V)) : tmerge l l = l.
Proof. apply tmerge_keep. intros kv Hin. exact (tlookup_In_some l kv Hin). Qed.

Lemma tmerge_nil_r {V} (l : list (N * V)) : tmerge l [] = l.
Proof. reflexivity. Qed.

(* the include pass and the final clean-up leave such an SDict as it is *)
Lemma merge_includes_clean fs s c : sd_inc s = [] -> wf (Dict (sd_data s)) = true -> ctabs (sd_lc s) (sd_bc s) (Dict (sd_data s)) ->
  merge_includes fs true s c = Ok (s, c).
Proof.
  intros Hi Hw Hc. destruct s as [D lc bc inc ex]. cbn [sd_data sd_lc sd_bc sd_inc] in *. subst inc.
  assert (Ec : sd_clean (mkSD D lc bc [] ex) = mkSD D lc bc [] ex) by exact (sd_clean_keep D lc bc ex Hc Hw).
  assert (E1 : sd_merge (mkSD D lc bc [] ex) [] (Some sd_empty) = mkSD D lc bc [] ex) by exact Ec.
  assert (E2 : sd_merge (mkSD D lc bc [] ex) D (Some (mkSD D lc bc [] ex)) = mkSD D lc bc [] ex).
  { unfold sd_merge. cbn [sd_data sd_lc sd_bc sd_inc sd_expr]. rewrite (merge_kvs_self _ _ _ Hw), !tmerge_self. exact Ec. }
  unfold merge_includes. cbn [merge_includes_rec sd_inc fold_left bind sd_data sd_empty]. rewrite E1. cbn [bind sd_data]. rewrite E2. reflexivity.
Qed.

Lemma read_plain_clean p text count s c' : sd_inc s = [] -> sd_expr s = [] -> wf (Dict (sd_data s)) = true ->
  ctabs (sd_lc s) (sd_bc s) (Dict (sd_data s)) ->
  parse_string true (dir_of p) count text = Ok (mkParsed s c') ->
  read_plain [(norm_path p, FNative text)] p true true count = Ok (s, c').
Proof.
  intros Hi He Hw Hc Hp. unfold read_plain. cbn [fs_lookup]. rewrite str_eqb_refl'. cbn [parse_unit]. rewrite Hp. cbn [bind pr_sd pr_count].
  rewrite (merge_includes_clean _ s c' Hi Hw Hc). cbn [bind]. destruct s as [D lc bc inc ex]. cbn [sd_expr sd_inc sd_data sd_lc sd_bc] in *. subst ex. reflexivity.
Qed.

(* ================================================================================================ *)
(* 8. the re-read state of a canonical document, and of the document with a plain dict merged in    *)
(* ================================================================================================ *)
(* a canonical document as the writer lays it out: block comments first, a marked header in front *)
Definition doc_ok (W : list (key * tree)) : Prop := cdoc_ok W = true /\ csort W = W /\ has_header W = true.

Lemma written_doc_ok s : rereadable s = true -> doc_ok (written_doc s).
Proof.
  intros Hr. destruct (hdr_sorted (canon s)) as [H1 H2]. split; [exact (rereadable_doc s Hr)|]. split; [exact H1|exact H2].
Qed.

(* what the reader returns for the text of such a document *)
Lemma number_state W count : doc_ok W -> (-1 <= count)%Z ->
  (Z.of_nat (length (lc_list W)) <= 1000000)%Z -> (Z.of_nat (length (bc_list W)) <= 1000000)%Z ->
  let s1 := number count W in
  rereadable s1 = true /\ written_doc s1 = cwv W /\ canon s1 = cwv W /\ wf (Dict (sd_data s1)) = true /\
  ctabs (sd_lc s1) (sd_bc s1) (Dict (sd_data s1)) /\ sd_inc s1 = [] /\ sd_expr s1 = [].
Proof.
  intros (Hd & Hs & Hh) Hc H1 H2 s1. destruct (number_rereadable W count Hd Hs Hh Hc H1 H2) as [R1 R2].
  destruct (doc_src W count Hd Hc H1 H2) as (A1 & A2 & A3 & A4 & A5).
  destruct (num_ok _ _ A1 A2 A3 A4 written_value (Dict W) 0%nat A5) as [Wn Cn].
  destruct (numT_dict (lc_tab count W) (bc_tab W) written_value W) as [d0 Ed].
  assert (Edata : Dict (sd_data s1) = numT (lc_tab count W) (bc_tab W) written_value (Dict W)) by (unfold s1, number; cbn [sd_data]; rewrite Ed; reflexivity).
  split; [exact R1|]. split; [exact R2|]. split; [exact (canon_number W count Hd Hc H1 H2)|]. split; [rewrite Edata; exact Wn|].
  split; [rewrite Edata; exact Cn|]. split; reflexivity.
Qed.

(* mapping the leaves of a document whose leaves were read back already *)
Lemma cmapg_after_cwv gn gx : forall t, cshape t = true ->
  cmapg (gkv gn gx) written_value (cmapg (gkv keepn keepx) written_value t) = cmapg (gkv gn gx) written_value t.
Proof.
  induction t as [v|kvs IH|ts IH] using tree_ind'; intros H; try discriminate H. rewrite !cmapg_dict. apply (f_equal Dict).
  etransitivity; [apply List.map_map|]. revert H. induction IH as [|[k c] kvs Hc _ IHk]; intros H; [reflexivity|].
  rewrite cshape_cons in H. apply andb_true_iff in H. destruct H as [H1 H2]. cbn [map]. rewrite (IHk H2). f_equal. cbn [snd] in Hc.
  unfold cshape_entry in H1. unfold cmap_entry at 2 3. destruct (cm_entry (k, c)) as [[n x]|] eqn:Ec.
  - destruct (cm_entry_inv _ _ _ Ec) as [_ Hn]. unfold gkv at 2, keepn, keepx. unfold cmap_entry. cbn [cm_entry]. rewrite Hn. reflexivity.
  - cbn [fst snd] in *. apply andb_true_iff in H1. destruct H1 as [Hk Hc1]. unfold cmap_entry. rewrite (cm_entry_simple k _ Hk). cbn [fst snd].
    f_equal. destruct c as [v|d|l].
    + cbn [map_leaves ktree] in *. rewrite (RereadPlain.written_value_idem v Hc1). reflexivity.
    + assert (Ed : exists d', cmapg (gkv keepn keepx) written_value (Dict d) = Dict d') by (rewrite cmapg_dict; eexists; reflexivity).
      destruct Ed as [d' Ed]. rewrite Ed. rewrite <- Ed. exact (Hc Hc1).
    + destruct (RereadPlain.wvt_facts (Lst l) Hc1) as (_ & F2 & _). rewrite TokProofs.map_leaves_lst in *. cbv beta iota. exact F2.
Qed.

Lemma cwv_merge C m : ktree (fun _ => true) (Dict m) = true -> cwv (merge_spec C m) = merge_spec (cwv C) (reread_plain m).
Proof.
  intros Hm. unfold cwv, reread_plain. rewrite (cmapg_merge keepn keepx written_value keep_cm C m Hm). reflexivity.
Qed.

(* the document after the merge *)
Lemma doc_ok_merge W m : doc_ok W -> wdom m = true -> doc_ok (merge_spec (cwv W) m).
Proof.
  intros (Hd & Hs & Hh) Hm. destruct (wdom_inv m Hm) as (M1 & M2 & M3). pose proof (ktree_skeys _ _ M2) as M2'.
  destruct (cdoc_ok_inv W Hd) as (Hsh & _). split; [exact (cdoc_ok_merge _ m (cwv_ok W Hd) Hm)|]. split.
  - rewrite (csort_merge _ m M2'), (cwv_sorted W Hsh Hs). reflexivity.
  - rewrite (has_header_merge _ m M2'), (cwv_header W Hsh). exact Hh.
Qed.

(* the state read back for the merged document: the old state with the dict, as the reader classifies it, merged into
   its data; the comment tables (ids and texts) are the same *)
Lemma number_merge W m count : doc_ok W -> wdom m = true ->
  number count (merge_spec (cwv W) m) =
  mkSD (merge_spec (sd_data (number count W)) (reread_plain m)) (sd_lc (number count W)) (sd_bc (number count W)) [] [].
Proof.
  intros (Hd & Hs & Hh) Hm. destruct (wdom_inv m Hm) as (M1 & M2 & M3). pose proof (ktree_skeys _ _ M2) as M2'.
  destruct (cdoc_ok_inv W Hd) as (Hsh & _). destruct (cwv_lists W Hsh) as (L1 & L2 & _).
  assert (El : lc_tab count (merge_spec (cwv W) m) = lc_tab count W) by (unfold lc_tab; rewrite (lc_list_merge _ m M2), L1; reflexivity).
  assert (Eb : bc_tab (merge_spec (cwv W) m) = bc_tab W) by (unfold bc_tab; rewrite (bc_list_merge _ m M2), L2; reflexivity).
  unfold number. rewrite El, Eb. cbn [sd_data sd_lc sd_bc]. f_equal.
  unfold numT. rewrite (cmapg_merge _ _ written_value (gx_cm (lc_tab count W) (bc_tab W)) (cwv W) m M2').
  cbn [kvs_of]. rewrite cwv_tree, (cmapg_after_cwv _ _ (Dict W) Hsh). reflexivity.
Qed.

(* ================================================================================================ *)
(* 9. one append onto a file with comments                                                          *)
(* ================================================================================================ *)
(* arithmetic, kept away from the large proof contexts *)
Lemma m1_le : (-1 <= -1)%Z.
Proof. lia. Qed.
Lemma le_bound a b c : (a <= b + c)%nat -> (Z.of_nat (b + c) <= 1000000)%Z -> (Z.of_nat a <= 1000000)%Z.
Proof. lia. Qed.
Lemma le_bound0 b c : (Z.of_nat (b + c) <= 1000000)%Z -> (Z.of_nat b <= 1000000)%Z.
Proof. lia. Qed.
Lemma le_add_r3 a b c d : (a <= b + d)%nat -> (b <= c)%nat -> (a <= c + d)%nat.
Proof. lia. Qed.

(* DictReader.read of the text the library writes for a re-readable SDict *)
Lemma read_back_commented path X : rereadable X = true ->
  (Z.of_nat (length (lc_list (written_doc X))) <= 1000000)%Z -> (Z.of_nat (length (bc_list (written_doc X))) <= 1000000)%Z ->
  (Z.of_nat (length (lit_list (written_doc X))) <= 1000000)%Z ->
  read_back path (to_string_sd X) = Ok (number (-1) (written_doc X), count_after (-1) (written_doc X)).
Proof.
  intros Hr H1 H2 H3. pose proof (reread_sd X (dir_of path) (-1)%Z Hr m1_le H1 H2 H3) as Hp.
  destruct (number_state (written_doc X) (-1)%Z (written_doc_ok X Hr) m1_le H1 H2) as (_ & _ & _ & Hw & Hc & Hi & He).
  exact (read_plain_clean path _ (-1)%Z _ _ Hi He Hw Hc Hp).
Qed.

(* no ORDINARY top-level entry refers to its own key / spells its own key in the form of a placeholder (the comment
   placeholder entries do, by construction) *)
Definition ord_nsn (D : list (key * tree)) : bool :=
  forallb (fun kv => is_some (cm_entry kv) || negb (circular (fst kv) (snd kv))) D.

Lemma ord_nsn_safe D m : ord_nsn D = true -> ktree (fun _ => true) (Dict m) = true -> merge_safe D m = true.
Proof.
  intros Hd Hm. unfold merge_safe. apply forallb_forall. intros [k c] Hin. cbn [fst].
  destruct (alookup k D) as [tv|] eqn:E; [|reflexivity].
  pose proof (forallb_alookup _ k tv D Hd E) as H. cbn [fst snd] in H.
  rewrite (cm_entry_simple k tv (ktree_dict_keys _ m Hm (k, c) Hin)) in H. exact H.
Qed.

Lemma ord_nsn_merge D m : ord_nsn D = true -> no_self_named m = true -> ktree (fun _ => true) (Dict m) = true ->
  ord_nsn (merge_spec D m) = true.
Proof.
  intros Hd Hn Hm. rewrite merge_spec_fold. unfold ord_nsn, no_self_named in *. revert D Hd.
  induction m as [|[k c] m IH]; intros D Hd; [exact Hd|]. destruct (plain_cons _ _ _ _ Hm) as (Hk & _ & Hr).
  cbn [forallb fst snd] in Hn. apply andb_true_iff in Hn. destruct Hn as [Hn1 Hn2]. cbn [fold_left].
  apply (IH Hn2 Hr). unfold mstep. cbn [fst snd]. apply forallb_aset; [|exact Hd]. cbn [fst snd].
  rewrite (cm_entry_simple k _ Hk). cbn [is_some orb].
  destruct (alookup k D) as [tv|] eqn:E; cbn [mval]; [|exact Hn1].
  rewrite circular_merge. pose proof (forallb_alookup _ k tv D Hd E) as H. cbn [fst snd] in H.
  rewrite (cm_entry_simple k tv Hk) in H. exact H.
Qed.

(* the write step on a target whose content is read back as the state of a canonical document W *)
Lemma append_step path W d txt0 c0 : doc_ok W -> pv_ok d = true -> wdom (typed d) = true ->
  merge_safe (sd_data (number (-1) W)) (typed d) = true ->
  (Z.of_nat (length (lc_list W)) <= 1000000)%Z -> (Z.of_nat (length (bc_list W)) <= 1000000)%Z ->
  (Z.of_nat (length (lit_list W) + nq (Dict (typed d))) <= 1000000)%Z ->
  read_back path txt0 = Ok (number (-1) W, c0) ->
  let W' := merge_spec (cwv W) (typed d) in
  let X := sd_merge (number (-1) W) (typed d) None in
  exists c,
    write_text false path (Some txt0) true d = Ok (to_string_sd X) /\
    rereadable X = true /\ written_doc X = W' /\
    read_back path (to_string_sd X) = Ok (number (-1) W', c) /\
    doc_ok W' /\ lc_list W' = lc_list W /\ bc_list W' = bc_list W /\
    (length (lit_list W') <= length (lit_list W) + nq (Dict (typed d)))%nat.
Proof.
  intros HW Hp Hd Hsafe B1 B2 B3 Er W' X. pose proof HW as (Hdoc & _). destruct (cdoc_ok_inv W Hdoc) as (Hsh & _).
  destruct (wdom_inv _ Hd) as (M1 & M2 & M3).
  destruct (number_state W (-1)%Z HW m1_le B1 B2) as (R1 & R2 & _ & Rw & Rc & _ & _).
  destruct (sd_merge_commented (number (-1) W) (typed d) R1 Rc Hd Hsafe) as (E1 & E2 & _ & _ & E5 & _).
  rewrite R2 in E5. fold W' in E5. fold X in E1. rewrite <- E1 in E2, E5.
  destruct (cwv_lists W Hsh) as (L1 & L2 & L3).
  assert (K1 : lc_list W' = lc_list W) by (unfold W'; rewrite (lc_list_merge _ _ M2); exact L1).
  assert (K2 : bc_list W' = bc_list W) by (unfold W'; rewrite (bc_list_merge _ _ M2); exact L2).
  assert (K3 : (length (lit_list W') <= length (lit_list W) + nq (Dict (typed d)))%nat).
  { pose proof (lit_list_merge (cwv W) (typed d) M2) as H. fold W' in H. exact (le_add_r3 _ _ _ _ H L3). }
  pose proof (read_back_commented path X E2) as Hrb. rewrite E5, K1, K2 in Hrb. specialize (Hrb B1 B2 (le_bound _ _ _ K3 B3)).
  exists (count_after (-1) W'). split.
  - rewrite write_text_unfold, (pv_ok_inv d Hp). cbn [bind kvs_of_tree]. cbv zeta. unfold read_back in Er. rewrite Er. cbn [bind fst]. reflexivity.
  - split; [exact E2|]. split; [exact E5|]. split; [exact Hrb|]. split; [exact (doc_ok_merge W (typed d) HW Hd)|]. split; [exact K1|]. split; [exact K2|exact K3].
Qed.

(* (2) One append onto an existing file whose text the library wrote from a re-readable (commented) SDict s.
   s1 = the state DictReader.read returns for the file before, s2 = the state it returns after the append:
   s2 is s1 with the new dict -- every leaf as the reader classifies its written form -- merged first-wins into its data:
   the same comment placeholder entries at the same places, the same comment tables (ids and exact texts). *)
Theorem append_onto_commented : forall path s d,
  rereadable s = true -> pv_ok d = true -> wdom (typed d) = true ->
  let W := written_doc s in let s1 := number (-1) W in
  merge_safe (sd_data s1) (typed d) = true ->
  (Z.of_nat (length (lc_list W)) <= 1000000)%Z -> (Z.of_nat (length (bc_list W)) <= 1000000)%Z ->
  (Z.of_nat (length (lit_list W) + nq (Dict (typed d))) <= 1000000)%Z ->
  let s2 := mkSD (merge_spec (sd_data s1) (classified d)) (sd_lc s1) (sd_bc s1) [] [] in
  exists c1 txt c2,
    read_back path (to_string_sd s) = Ok (s1, c1) /\
    write_text false path (Some (to_string_sd s)) true d = Ok txt /\
    read_back path txt = Ok (s2, c2) /\
    rereadable s1 = true /\ rereadable s2 = true /\
    canon s1 = cwv W /\ canon s2 = merge_spec (cwv W) (classified d) /\
    cms (Dict (sd_data s2)) = cms (Dict (sd_data s1)).
Proof.
  intros path s d Hr Hp Hd W s1 Hsafe B1 B2 B3 s2. pose proof (written_doc_ok s Hr) as HW. fold W in HW.
  pose proof HW as (Hdoc & _). destruct (cdoc_ok_inv W Hdoc) as (Hsh & _).
  destruct (wdom_inv _ Hd) as (M1 & M2 & M3). pose proof (ktree_skeys _ _ M2) as M2'.
  pose proof (read_back_commented path s Hr B1 B2 (le_bound0 _ _ B3)) as Er. fold W in Er. fold s1 in Er.
  destruct (append_step path W d _ _ HW Hp Hd Hsafe B1 B2 B3 Er) as (c2 & Wt & _ & _ & Rb & HW' & K1 & K2 & K3).
  rewrite (number_merge W (typed d) (-1)%Z HW Hd) in Rb. fold s1 in Rb. fold (classified d) in Rb. fold s2 in Rb.
  destruct (number_state W (-1)%Z HW m1_le B1 B2) as (R1 & _ & R3 & _).
  assert (B1' : (Z.of_nat (length (lc_list (merge_spec (cwv W) (typed d)))) <= 1000000)%Z) by (rewrite K1; exact B1).
  assert (B2' : (Z.of_nat (length (bc_list (merge_spec (cwv W) (typed d)))) <= 1000000)%Z) by (rewrite K2; exact B2).
  destruct (number_state _ (-1)%Z HW' m1_le B1' B2') as (Q1 & _ & Q3 & _).
  rewrite (number_merge W (typed d) (-1)%Z HW Hd) in Q1, Q3. fold s1 in Q1, Q3. fold (classified d) in Q1, Q3. fold s2 in Q1, Q3.
  exists (count_after (-1) W), (to_string_sd (sd_merge s1 (typed d) None)), c2. split; [exact Er|]. split; [exact Wt|]. split; [exact Rb|]. split; [exact R1|]. split; [exact Q1|].
  split; [exact R3|]. split.
  - rewrite Q3, (cwv_merge _ _ M2'), (cwv_cwv W Hsh). reflexivity.
  - destruct (reread_dom (typed d) Hd) as (C1 & _). destruct (wdom_inv _ C1) as (_ & C2 & _). exact (cms_merge0 (sd_data s1) (classified d) C2).
Qed.

(* (1) The class is closed under SDict.merge of a plain dict of the writer domain (what DictWriter.write does in append
   mode after reading the target): the result is the SDict with the dict merged first-wins into its data, the comment
   tables as they are; it is re-readable again; its canonical form and its written document are the first-wins merge of
   the dict into those of s: every comment entry at its place with its text, ordinary leaves kept, absent key paths
   added behind the existing entries of their dict level. *)
Theorem rereadable_merge_closed : forall s m, rereadable s = true -> wdom m = true -> merge_safe (sd_data s) m = true ->
  let s' := mkSD (merge_spec (sd_data s) m) (sd_lc s) (sd_bc s) [] [] in
  sd_merge s m None = s' /\ rereadable s' = true /\
  canon s' = merge_spec (canon s) m /\ written_doc s' = merge_spec (written_doc s) m /\
  cms (Dict (sd_data s')) = cms (Dict (sd_data s)) /\
  cstrip (Dict (sd_data s')) = Dict (merge_spec (kvs_of (cstrip (Dict (sd_data s)))) m).
Proof.
  intros s m Hr Hm Hsafe s'.
  destruct (sd_merge_commented s m Hr (rereadable_ctabs s Hr) Hm Hsafe) as (E1 & E2 & _ & E4 & E5 & E6).
  split; [exact E1|]. split; [exact E2|]. split; [exact E4|]. split; [exact E5|]. split; [exact E6|].
  destruct (wdom_inv m Hm) as (_ & M2 & _). exact (cstrip_merge (sd_data s) m (ktree_skeys _ _ M2)).
Qed.

(* (2) in the words of the property *)
Theorem append_onto_commented_paths : forall path s d,
  rereadable s = true -> pv_ok d = true -> wdom (typed d) = true ->
  let W := written_doc s in let s1 := number (-1) W in
  merge_safe (sd_data s1) (typed d) = true ->
  (Z.of_nat (length (lc_list W)) <= 1000000)%Z -> (Z.of_nat (length (bc_list W)) <= 1000000)%Z ->
  (Z.of_nat (length (lit_list W) + nq (Dict (typed d))) <= 1000000)%Z ->
  exists c1 txt s2 c2,
    read_back path (to_string_sd s) = Ok (s1, c1) /\
    write_text false path (Some (to_string_sd s)) true d = Ok txt /\
    read_back path txt = Ok (s2, c2) /\
    (* every key path already in the file keeps its value (comment placeholder entries included) *)
    (forall p v, get_dpath (Dict (sd_data s1)) p = Some (Leaf v) -> get_dpath (Dict (sd_data s2)) p = Some (Leaf v)) /\
    (* every key path of the new dict that was absent is added *)
    (forall p x, get_dpath (Dict (classified d)) p = Some x -> addable (Dict (sd_data s1)) p = true ->
                 get_dpath (Dict (sd_data s2)) p = Some x) /\
    (* every comment is still there, at its place, with its exact text *)
    sd_lc s2 = sd_lc s1 /\ sd_bc s2 = sd_bc s1 /\ cms (Dict (sd_data s2)) = cms (Dict (sd_data s1)) /\
    canon s1 = cwv W /\ canon s2 = merge_spec (cwv W) (classified d) /\ cms (Dict (canon s2)) = cms (Dict W).
Proof.
  intros path s d Hr Hp Hd W s1 Hsafe B1 B2 B3.
  destruct (append_onto_commented path s d Hr Hp Hd Hsafe B1 B2 B3) as (c1 & txt & c2 & A1 & A2 & A3 & _ & _ & A6 & A7 & A8).
  fold W in A1, A3, A6, A7, A8. fold s1 in A1, A3, A6, A7, A8.
  destruct (reread_dom (typed d) Hd) as (C1 & _). destruct (wdom_inv _ C1) as (Cw & C2 & _). fold (classified d) in Cw, C2.
  pose proof (written_doc_ok s Hr) as (Hdoc & _). fold W in Hdoc. destruct (cdoc_ok_inv W Hdoc) as (Hsh & _).
  exists c1, txt, (mkSD (merge_spec (sd_data s1) (classified d)) (sd_lc s1) (sd_bc s1) [] []), c2.
  split; [exact A1|]. split; [exact A2|]. split; [exact A3|]. cbn [sd_data sd_lc sd_bc]. split.
  - intros p v H. exact (merge_keeps_leaves _ _ p v H).
  - split; [intros p x Hg Ha; exact (merge_adds_exact _ _ p x Cw Ha Hg)|]. split; [reflexivity|]. split; [reflexivity|].
    split; [exact A8|]. split; [exact A6|]. split; [exact A7|].
    rewrite A7, (cms_merge0 _ _ C2). unfold cms. rewrite (cwv_events W 0 Hsh). apply cms_of_keep.
Qed.

(* ================================================================================================ *)
(* 10. any number of appends onto a file with comments                                              *)
(* ================================================================================================ *)
(* the target holds a text that is read back as S = the state of a canonical document with at most n quoted literals;
   no ordinary top-level entry of S is self-named *)
Definition cfile_state (path : str) (txt : str) (S : sdict) (n : nat) : Prop :=
  exists W c, doc_ok W /\ S = number (-1) W /\ read_back path txt = Ok (S, c) /\ ord_nsn (sd_data S) = true /\
    (Z.of_nat (length (lc_list W)) <= 1000000)%Z /\ (Z.of_nat (length (bc_list W)) <= 1000000)%Z /\ (length (lit_list W) <= n)%nat.

Definition merged_state (S : sdict) (m : list (key * tree)) : sdict := mkSD (merge_spec (sd_data S) m) (sd_lc S) (sd_bc S) [] [].

Lemma le_bound' a n q : (a <= n)%nat -> (Z.of_nat (n + q) <= 1000000)%Z -> (Z.of_nat (a + q) <= 1000000)%Z.
Proof. lia. Qed.
Lemma le_add_r3' a b n q : (a <= b + q)%nat -> (b <= n)%nat -> (a <= n + q)%nat.
Proof. lia. Qed.

Lemma cappend_step path txt S n d : cfile_state path txt S n -> writable_src d = true ->
  (Z.of_nat (n + nq (Dict (typed d))) <= 1000000)%Z ->
  exists txt', write_text false path (Some txt) true d = Ok txt' /\
               cfile_state path txt' (merged_state S (classified d)) (n + nq (Dict (typed d))).
Proof.
  intros (W & c & HW & ES & Er & Hn & B1 & B2 & B3) Hs Hb. destruct (writable_src_inv d Hs) as (Ep & Hd & Hns).
  assert (Hp : pv_ok d = true) by (unfold pv_ok; rewrite Ep; reflexivity).
  destruct (wdom_inv _ Hd) as (M1 & M2 & M3). pose proof (ktree_skeys _ _ M2) as M2'.
  destruct (reread_dom (typed d) Hd) as (C1 & _). destruct (wdom_inv _ C1) as (_ & C2 & _). fold (classified d) in C2.
  subst S. pose proof (ord_nsn_safe _ _ Hn M2') as Hsafe.
  destruct (append_step path W d txt c HW Hp Hd Hsafe B1 B2 (le_bound' _ _ _ B3 Hb) Er) as (c' & Wt & _ & _ & Rb & HW' & K1 & K2 & K3).
  eexists. split; [exact Wt|]. exists (merge_spec (cwv W) (typed d)), c'.
  pose proof (number_merge W (typed d) (-1)%Z HW Hd) as En. fold (classified d) in En. fold (merged_state (number (-1) W) (classified d)) in En.
  split; [exact HW'|]. split; [symmetry; exact En|]. split; [rewrite <- En; exact Rb|]. split.
  - unfold merged_state. cbn [sd_data]. exact (ord_nsn_merge _ _ Hn Hns (ktree_skeys _ _ C2)).
  - split; [rewrite K1; exact B1|]. split; [rewrite K2; exact B2|]. exact (le_add_r3' _ _ _ _ K3 B3).
Qed.

Lemma merged_state_twice S a b : merged_state (merged_state S a) b = mkSD (merge_spec (merge_spec (sd_data S) a) b) (sd_lc S) (sd_bc S) [] [].
Proof. reflexivity. Qed.

Lemma crun_state : forall ds path w txt S n,
  w_get path w = Some txt -> cfile_state path txt S n -> forallb writable_src ds = true ->
  (Z.of_nat (n + nq_total ds) <= 1000000)%Z ->
  exists txt', w_get path (writer_run false w path (appends ds)) = Some txt' /\
    cfile_state path txt' (mkSD (fold_left merge_spec (map classified ds) (sd_data S)) (sd_lc S) (sd_bc S) [] []) (n + nq_total ds).
Proof.
  induction ds as [|d ds IH]; intros path w txt S n Hg Hfs Hall Hn.
  - cbn [appends map writer_run fold_left nq_total fold_right]. rewrite Nat.add_0_r. exists txt. split; [exact Hg|].
    destruct Hfs as (W & c & HW & ES & Rest). exists W, c. split; [exact HW|]. subst S. split; [reflexivity|exact Rest].
  - cbn [forallb] in Hall. apply andb_true_iff in Hall. destruct Hall as [Hd Hall].
    cbn [nq_total fold_right] in Hn |- *. fold (nq_total ds) in Hn |- *.
    assert (Hb : (Z.of_nat (n + nq (Dict (typed d))) <= 1000000)%Z) by (clear -Hn; lia).
    destruct (cappend_step path txt S n d Hfs Hd Hb) as (txt1 & Wt & Hfs1). rewrite <- Hg in Wt.
    pose proof (writer_write_ok false w path true d txt1 Wt) as Hg1.
    assert (Hn1 : (Z.of_nat (n + nq (Dict (typed d)) + nq_total ds) <= 1000000)%Z) by (clear -Hn; lia).
    destruct (IH path (fst (writer_write false w path true d)) txt1 _ _ Hg1 Hfs1 Hall Hn1) as (txt' & G & F).
    exists txt'. split.
    + unfold writer_run, appends. cbn [map fold_left fst snd]. exact G.
    + cbn [map fold_left]. unfold merged_state in F. cbn [sd_data sd_lc sd_bc] in F. rewrite Nat.add_assoc. exact F.
Qed.

(* (2), sequence version: any number of appends onto an existing file whose text the library wrote from a re-readable
   (commented) SDict.  Every write succeeds; the state read back after the last one is the state s1 read from the file
   before, with the dicts -- as the reader classifies them -- merged first-wins, one after the other, into its data; the
   comment tables are those of s1, and the comment placeholder entries are where they were. *)
Theorem append_sequence_onto_commented : forall path w s ds,
  rereadable s = true -> w_get path w = Some (to_string_sd s) ->
  let W := written_doc s in let s1 := number (-1) W in
  ord_nsn (sd_data s1) = true -> forallb writable_src ds = true ->
  (Z.of_nat (length (lc_list W)) <= 1000000)%Z -> (Z.of_nat (length (bc_list W)) <= 1000000)%Z ->
  (Z.of_nat (length (lit_list W) + nq_total ds) <= 1000000)%Z ->
  let sN := mkSD (fold_left merge_spec (map classified ds) (sd_data s1)) (sd_lc s1) (sd_bc s1) [] [] in
  exists c1 txt cN,
    read_back path (to_string_sd s) = Ok (s1, c1) /\
    w_get path (writer_run false w path (appends ds)) = Some txt /\
    read_back path txt = Ok (sN, cN) /\
    rereadable sN = true /\
    (forall p v, get_dpath (Dict (sd_data s1)) p = Some (Leaf v) -> get_dpath (Dict (sd_data sN)) p = Some (Leaf v)) /\
    cms (Dict (sd_data sN)) = cms (Dict (sd_data s1)).
Proof.
  intros path w s ds Hr Hg W s1 Hn Hall B1 B2 B3 sN. pose proof (written_doc_ok s Hr) as HW. fold W in HW.
  pose proof (read_back_commented path s Hr B1 B2 (le_bound0 _ _ B3)) as Er. fold W in Er. fold s1 in Er.
  assert (Hfs : cfile_state path (to_string_sd s) s1 (length (lit_list W))).
  { exists W, (count_after (-1) W). split; [exact HW|]. split; [reflexivity|]. split; [exact Er|]. split; [exact Hn|]. split; [exact B1|]. split; [exact B2|apply le_n]. }
  destruct (crun_state ds path w _ s1 _ Hg Hfs Hall B3) as (txt & G & (WN & cN & HWN & ESN & RN & _ & BN1 & BN2 & _)). fold sN in ESN, RN.
  exists (count_after (-1) W), txt, cN. split; [exact Er|]. split; [exact G|]. split; [exact RN|]. split.
  - rewrite ESN. exact (proj1 (number_state WN (-1)%Z HWN m1_le BN1 BN2)).
  - split; [intros p v H; unfold sN; cbn [sd_data]; exact (fold_merge_keeps _ _ p v H)|].
    unfold sN. cbn [sd_data]. clear -Hall. revert Hall. generalize (sd_data s1). induction ds as [|d ds IH]; intros D Hall; [reflexivity|].
    cbn [forallb] in Hall. apply andb_true_iff in Hall. destruct Hall as [Hd Hall]. cbn [map fold_left]. rewrite (IH _ Hall).
    destruct (classified_facts d Hd) as (C1 & _). destruct (wdom_inv _ C1) as (_ & C2 & _). exact (cms_merge0 D (classified d) C2).
Qed.

(* ================================================================================================ *)
(* 11. one append onto ANY file whose read-back state is in the class (not necessarily written by   *)
(*     the library: other layout, no header ...)                                                    *)
(* ================================================================================================ *)
(* The state read back afterwards is the state of the document  merge (written_doc S) (typed d): its canonical form is
   the canonical form of S (block comments first, header in front, leaves read back) with the classified dict merged
   first-wins; its ordinary data is the ordinary data of S (leaves read back) with the classified dict merged. *)
Theorem append_onto_rereadable_state : forall path txt0 S c0 d,
  read_back path txt0 = Ok (S, c0) -> rereadable S = true ->
  pv_ok d = true -> wdom (typed d) = true -> merge_safe (sd_data S) (typed d) = true ->
  let W := written_doc S in
  (Z.of_nat (length (lc_list W)) <= 1000000)%Z -> (Z.of_nat (length (bc_list W)) <= 1000000)%Z ->
  (Z.of_nat (length (lit_list W) + nq (Dict (typed d))) <= 1000000)%Z ->
  let S2 := number (-1) (merge_spec W (typed d)) in
  exists txt c2,
    write_text false path (Some txt0) true d = Ok txt /\
    txt = to_string_sd (mkSD (merge_spec (sd_data S) (typed d)) (sd_lc S) (sd_bc S) [] []) /\
    read_back path txt = Ok (S2, c2) /\
    rereadable S2 = true /\
    canon S2 = merge_spec (cwv W) (classified d) /\
    cms (Dict (canon S2)) = cms (Dict W) /\
    cstrip (Dict (sd_data S2)) = Dict (merge_spec (reread_plain (kvs_of (cstrip (Dict (sd_data S))))) (classified d)).
Proof.
  intros path txt0 S c0 d Er Hr Hp Hd Hsafe W B1 B2 B3 S2.
  destruct (wdom_inv _ Hd) as (M1 & M2 & M3). pose proof (ktree_skeys _ _ M2) as M2'.
  destruct (rereadable_merge_closed S (typed d) Hr Hd Hsafe) as (E1 & E2 & _ & E4 & _ & _). fold W in E4.
  set (X := mkSD (merge_spec (sd_data S) (typed d)) (sd_lc S) (sd_bc S) [] []) in *.
  pose proof (written_doc_ok S Hr) as HW. fold W in HW. pose proof HW as (Hdoc & _). destruct (cdoc_ok_inv W Hdoc) as (Hsh & _).
  pose proof (written_doc_ok X E2) as HW'. rewrite E4 in HW'.
  assert (K1 : lc_list (merge_spec W (typed d)) = lc_list W) by exact (lc_list_merge _ _ M2).
  assert (K2 : bc_list (merge_spec W (typed d)) = bc_list W) by exact (bc_list_merge _ _ M2).
  pose proof (lit_list_merge W (typed d) M2) as K3.
  assert (B1' : (Z.of_nat (length (lc_list (merge_spec W (typed d)))) <= 1000000)%Z) by (rewrite K1; exact B1).
  assert (B2' : (Z.of_nat (length (bc_list (merge_spec W (typed d)))) <= 1000000)%Z) by (rewrite K2; exact B2).
  pose proof (read_back_commented path X E2) as Hrb. rewrite E4 in Hrb. specialize (Hrb B1' B2' (le_bound _ _ _ K3 B3)). fold S2 in Hrb.
  destruct (number_state _ (-1)%Z HW' m1_le B1' B2') as (Q1 & _ & Q3 & _). fold S2 in Q1, Q3.
  destruct (reread_dom (typed d) Hd) as (C1 & _). destruct (wdom_inv _ C1) as (_ & C2 & _). fold (classified d) in C2.
  assert (Ecan : canon S2 = merge_spec (cwv W) (classified d)) by (rewrite Q3; exact (cwv_merge W (typed d) M2')).
  exists (to_string_sd X), (count_after (-1) (merge_spec W (typed d))). split.
  - rewrite write_text_unfold, (pv_ok_inv d Hp). cbn [bind kvs_of_tree]. cbv zeta. unfold read_back in Er. rewrite Er. cbn [bind fst]. rewrite E1. reflexivity.
  - split; [reflexivity|]. split; [exact Hrb|]. split; [exact Q1|]. split; [exact Ecan|]. split.
    + rewrite Ecan, (cms_merge0 _ _ C2). unfold cms. rewrite (cwv_events W 0 Hsh). apply cms_of_keep.
    + destruct HW' as (Hdoc' & _). unfold S2. rewrite (data_number _ (-1)%Z Hdoc'), (cstrip_merge W (typed d) M2').
      unfold W at 1. rewrite (cstrip_written_doc S (wf_shape S (rereadable_facts S Hr))).
      rewrite <- reread_plain_dict, reread_merge. reflexivity.
Qed.
