(* C01 layer (c), full writer domain, part 1: texts with holes.
   An abstract text is an ordinary string in which the character HOLE (the dollar sign, which neither a bare token nor
   a written literal can contain) marks the places of the quoted literals; expandL fills the holes, in order, from a
   list of fillers.  The writer's text is the abstract body filled with the written literals; what the literal
   scanner leaves behind is the same abstract text filled with the placeholders.  White space surgery commutes with
   filling (fillers are solid: no line feed, first and last character not white space). *)
From Coq Require Import String.
From Coq Require Import NArith ZArith List Bool Lia ZifyBool ZifyN ZifyNat.
From DictIO Require Import Chars Str Value Scalar KeyPath SDict Layout Lexer TokParser TreeSpec NativeSpec LayoutSpec E2ESpec.
From DictIO Require ScalarProofs SDictProofs TokProofs LayoutProofs SemProofs QuoteProofs.
From DictIO Require Import E2EProofs.
Import ListNotations.
Import LayoutProofs.
Open Scope N_scope.

(* ================================================================================================ *)
(* 1. holes and fillers                                                                             *)
(* ================================================================================================ *)

Definition HOLE : N := c_dollar.
Definition achar (c : N) : bool := tchar c || (c =? HOLE).

Fixpoint expandL (fs : list (list N)) (A : list N) : list N :=
  match A with
  | [] => []
  | c :: A' =>
      if c =? HOLE then
        match fs with
        | f :: fs' => f ++ expandL fs' A'
        | [] => c :: expandL [] A'
        end
      else c :: expandL fs A'
  end.

Fixpoint nh (A : list N) : nat :=
  match A with [] => O | c :: A' => Nat.add (if c =? HOLE then 1%nat else 0%nat) (nh A') end.

Lemma hole_space : is_space HOLE = false. Proof. reflexivity. Qed.
Lemma hole_delim : is_delim HOLE = false. Proof. reflexivity. Qed.
Lemma hole_tchar : tchar HOLE = false. Proof. reflexivity. Qed.
Lemma hole_lf : (HOLE =? c_lf) = false. Proof. reflexivity. Qed.

Lemma expandL_char fs c (A : list N) : (c =? HOLE) = false -> expandL fs (c :: A) = c :: expandL fs A.
Proof. intros H. cbn [expandL]. rewrite H. reflexivity. Qed.

Lemma expandL_hole f fs (A : list N) : expandL (f :: fs) (HOLE :: A) = f ++ expandL fs A.
Proof. reflexivity. Qed.

Lemma expandL_plain fs (X Y : list N) : has_char HOLE X = false -> expandL fs (X ++ Y) = X ++ expandL fs Y.
Proof.
  induction X as [|c X IH]; intros H; [reflexivity|].
  rewrite has_char_cons in H. apply orb_false_iff in H. destruct H as [Hc HX]. rewrite N.eqb_sym in Hc.
  cbn [app]. rewrite (expandL_char fs c _ Hc), (IH HX). reflexivity.
Qed.

Lemma expandL_plain0 fs (X : list N) : has_char HOLE X = false -> expandL fs X = X.
Proof. intros H. rewrite <- (app_nil_r X) at 1. rewrite (expandL_plain fs X [] H). apply app_nil_r. Qed.

Lemma expandL_app (A B : list N) : forall fs, expandL fs (A ++ B) = expandL fs A ++ expandL (skipn (nh A) fs) B.
Proof.
  induction A as [|c A IH]; intros fs; [reflexivity|].
  cbn [app expandL nh]. destruct (c =? HOLE).
  - destruct fs as [|f fs].
    + rewrite IH, !skipn_nil. reflexivity.
    + rewrite IH, <- app_assoc. reflexivity.
  - rewrite IH. reflexivity.
Qed.

Lemma nh_app (A B : list N) : nh (A ++ B) = (nh A + nh B)%nat.
Proof. induction A as [|c A IH]; [reflexivity|]. cbn [app nh]. rewrite IH. lia. Qed.

Lemma nh_plain (X : list N) : has_char HOLE X = false -> nh X = O.
Proof.
  induction X as [|c X IH]; intros H; [reflexivity|].
  rewrite has_char_cons in H. apply orb_false_iff in H. destruct H as [Hc HX]. rewrite N.eqb_sym in Hc.
  cbn [nh]. rewrite Hc, (IH HX). reflexivity.
Qed.

Lemma tchars_nohole (X : list N) : forallb tchar X = true -> has_char HOLE X = false.
Proof. intros H. apply (tchars_no _ _ H). reflexivity. Qed.

Lemma ws_nohole (q : list N) : ws_run q -> has_char HOLE q = false.
Proof.
  induction 1 as [|c q Hc _ IH]; [reflexivity|]. rewrite has_char_cons, IH, orb_false_r.
  destruct (HOLE =? c) eqn:E; [|reflexivity]. apply N.eqb_eq in E. subst c. discriminate Hc.
Qed.

(* number of holes = number of holes among the visible characters *)
Lemma nh_filter (A : list N) : nh (filter nsp A) = nh A.
Proof.
  induction A as [|c A IH]; [reflexivity|]. cbn [filter]. unfold nsp at 1.
  destruct (is_space c) eqn:Es; cbn [negb nh].
  - destruct (c =? HOLE) eqn:E; [apply N.eqb_eq in E; subst c; discriminate Es|]. rewrite IH. reflexivity.
  - rewrite IH. reflexivity.
Qed.

Lemma Forall_skipn {A} (P : A -> Prop) n (l : list A) : Forall P l -> Forall P (skipn n l).
Proof.
  revert l. induction n as [|n IH]; intros l H; [exact H|]. destruct l as [|x l]; [constructor|].
  cbn [skipn]. apply IH. inversion H; assumption.
Qed.

(* ================================================================================================ *)
(* 2. white space surgery commutes with filling                                                     *)
(* ================================================================================================ *)

Definition nolf (f : list N) : Prop := has_char c_lf f = false.
Definition solid (f : list N) : Prop :=
  nolf f /\ (exists c r, f = c :: r /\ is_space c = false) /\ (exists r c, f = r ++ [c] /\ is_space c = false).

Lemma solid_nolf fs : Forall solid fs -> Forall nolf fs.
Proof. apply Forall_impl. intros f H. exact (proj1 H). Qed.

Lemma map_lf2sp_nolf (f : list N) : nolf f -> map lf2sp f = f.
Proof.
  unfold nolf. induction f as [|c f IH]; intros H; [reflexivity|].
  rewrite has_char_cons in H. apply orb_false_iff in H. destruct H as [Hc Hf]. rewrite N.eqb_sym in Hc.
  cbn [map]. unfold lf2sp at 1. rewrite Hc, (IH Hf). reflexivity.
Qed.

Lemma lf2sp_hole c : (lf2sp c =? HOLE) = (c =? HOLE).
Proof.
  unfold lf2sp. destruct (c =? c_lf) eqn:E; [|reflexivity]. apply N.eqb_eq in E. subst c. reflexivity.
Qed.

Lemma map_expand (A : list N) : forall fs, Forall nolf fs -> map lf2sp (expandL fs A) = expandL fs (map lf2sp A).
Proof.
  induction A as [|c A IH]; intros fs Hfs; [reflexivity|].
  cbn [map expandL]. rewrite lf2sp_hole. destruct (c =? HOLE) eqn:E.
  - apply N.eqb_eq in E. subst c. destruct fs as [|f fs].
    + cbn [map]. rewrite (IH [] Hfs). reflexivity.
    + inversion Hfs as [|f' fs' Hf Hfs']; subst. rewrite map_app, (map_lf2sp_nolf f Hf), (IH fs Hfs'). reflexivity.
  - cbn [map]. rewrite (IH fs Hfs). reflexivity.
Qed.

Lemma lstrip_expand (A : list N) : forall fs, Forall solid fs -> lstrip (expandL fs A) = expandL fs (lstrip A).
Proof.
  induction A as [|c A IH]; intros fs Hfs; [reflexivity|].
  cbn [expandL lstrip]. destruct (c =? HOLE) eqn:E.
  - apply N.eqb_eq in E. subst c. rewrite hole_space. destruct fs as [|f fs].
    + cbn [lstrip expandL]. rewrite hole_space. reflexivity.
    + inversion Hfs as [|f' fs' Hf Hfs']; subst. destruct Hf as (_ & (x & r & -> & Hx) & _).
      cbn [app lstrip expandL]. rewrite Hx. reflexivity.
  - destruct (is_space c) eqn:Es.
    + cbn [lstrip]. rewrite Es. apply IH. exact Hfs.
    + cbn [lstrip expandL]. rewrite Es, E. reflexivity.
Qed.

Lemma rstrip_unique (s p q : list N) : s = p ++ q -> ws_run q ->
  (p = [] \/ exists r e, p = r ++ [e] /\ is_space e = false) -> rstrip s = p.
Proof.
  intros -> Hq Hp. unfold rstrip. rewrite rev_app_distr.
  rewrite (lstrip_ws (rev q) (rev p)).
  2:{ intros c Hc. apply in_rev in Hc. unfold ws_run in Hq. rewrite Forall_forall in Hq. exact (Hq c Hc). }
  destruct Hp as [->|(r & e & -> & He)]; [reflexivity|].
  rewrite rev_app_distr. cbn [rev app lstrip]. rewrite He. cbn [rev]. rewrite rev_involutive. reflexivity.
Qed.

Lemma rstrip_expand (A : list N) fs : Forall solid fs -> rstrip (expandL fs A) = expandL fs (rstrip A).
Proof.
  intros Hfs. destruct (rstrip_split A) as (q & E & Hq).
  apply (rstrip_unique _ _ q).
  - rewrite E at 1. rewrite expandL_app. f_equal. apply expandL_plain0. apply ws_nohole. exact Hq.
  - exact Hq.
  - destruct (rstrip_last A) as [->|(r & e & -> & He)]; [left; reflexivity|]. right.
    rewrite expandL_app. destruct (e =? HOLE) eqn:Ee.
    + apply N.eqb_eq in Ee. subst e. destruct (skipn (nh r) fs) as [|f fs'] eqn:Es.
      * exists (expandL fs r), HOLE. split; [reflexivity|exact He].
      * assert (Hf : solid f).
        { pose proof (Forall_skipn solid (nh r) fs Hfs) as Hsk. rewrite Es in Hsk. inversion Hsk; assumption. }
        destruct Hf as (_ & _ & (r' & c & -> & Hc)).
        exists (expandL fs r ++ r'), c. split; [|exact Hc].
        rewrite expandL_hole. cbn [expandL]. rewrite app_nil_r, app_assoc. reflexivity.
    + exists (expandL fs r), e. split; [|exact He]. rewrite (expandL_char _ e [] Ee). reflexivity.
Qed.

Lemma strip_expand (A : list N) fs : Forall solid fs -> strip (expandL fs A) = expandL fs (strip A).
Proof. intros Hfs. unfold strip. rewrite (lstrip_expand A fs Hfs). apply rstrip_expand. exact Hfs. Qed.

Lemma expandL_nolf (A : list N) : forall fs, Forall nolf fs -> nolf A -> nolf (expandL fs A).
Proof.
  unfold nolf. induction A as [|c A IH]; intros fs Hfs HA; [reflexivity|].
  rewrite has_char_cons in HA. apply orb_false_iff in HA. destruct HA as [Hc HA].
  cbn [expandL]. destruct (c =? HOLE).
  - destruct fs as [|f fs].
    + rewrite has_char_cons, Hc. exact (IH [] Hfs HA).
    + inversion Hfs as [|f' fs' Hf Hfs']; subst. rewrite has_char_app', Hf. exact (IH fs Hfs' HA).
  - rewrite has_char_cons, Hc. exact (IH fs Hfs HA).
Qed.

Lemma nh_rstrip (b : list N) : nh (rstrip b) = nh b.
Proof.
  destruct (rstrip_split b) as (q & E & Hq). rewrite E at 2. rewrite nh_app, (nh_plain q (ws_nohole q Hq)). lia.
Qed.

Lemma rts_expand (A : list N) : forall fs, Forall solid fs ->
  remove_trailing_spaces (expandL fs A) = expandL fs (remove_trailing_spaces A).
Proof.
  pattern A. apply lines_ind; clear A.
  - intros b Hb fs Hfs. rewrite (rts_last b Hb).
    rewrite (rts_last _ (expandL_nolf b fs (solid_nolf fs Hfs) Hb)). apply rstrip_expand. exact Hfs.
  - intros b t Hb IH fs Hfs. rewrite (rts_line b t Hb).
    rewrite !expandL_app. rewrite (expandL_char _ c_lf t eq_refl), (expandL_char _ c_lf _ eq_refl).
    rewrite (rts_line _ _ (expandL_nolf b fs (solid_nolf fs Hfs) Hb)).
    rewrite (rstrip_expand b fs Hfs), nh_rstrip.
    rewrite (IH _ (Forall_skipn solid (nh b) fs Hfs)). reflexivity.
Qed.

Lemma surgery_expand (A : list N) fs : Forall solid fs ->
  remove_line_endings (remove_trailing_spaces (expandL fs A)) =
  expandL fs (remove_line_endings (remove_trailing_spaces A)).
Proof.
  intros Hfs. rewrite !remove_line_endings_eq. rewrite (rts_expand A fs Hfs).
  rewrite (map_expand _ fs (solid_nolf fs Hfs)). apply strip_expand. exact Hfs.
Qed.

(* ================================================================================================ *)
(* 3. the literal scanner on a filled text                                                          *)
(* ================================================================================================ *)

Definition PH (k : N) : list N := placeholder w_STRINGLITERAL k.
Fixpoint idsZ (c : Z) (n : nat) : list Z :=
  match n with O => [] | S n' => counter_next c :: idsZ (counter_next c) n' end.
Fixpoint cafter (c : Z) (n : nat) : Z := match n with O => c | S n' => cafter (counter_next c) n' end.
Definition ids (c : Z) (n : nat) : list N := map Z.to_N (idsZ c n).

(* a string that the writer wraps in quotes, and how *)
Definition wlit (s : list N) : Prop :=
  has_char c_dollar s = false /\
  ((format_string s = sq s /\ no_sq s = true) \/ (format_string s = dq s /\ no_dq s = true)).

Lemma tupdate_cons {V} (tab : list (N * V)) x m : tupdate tab (x :: m) = tupdate (tset (fst x) (snd x) tab) m.
Proof. reflexivity. Qed.

Lemma scan_step_sq f count out tab (s rest : list N) : no_sq s = true ->
  scan_literals (S f) false count out tab (sq s ++ rest) =
  scan_literals f false (counter_next count) (rev (PH (Z.to_N (counter_next count))) ++ out)
                (tset (Z.to_N (counter_next count)) s tab) rest.
Proof.
  intros Hno.
  assert (E : exists c T', sq s ++ rest = c :: T') by (unfold sq; cbn [app]; eauto).
  destruct E as (c & T' & E). rewrite E. cbn [scan_literals]. rewrite <- E.
  rewrite (QuoteProofs.sq_literal_found s rest Hno). rewrite (proj1 (QuoteProofs.unquote_quoted s)). reflexivity.
Qed.

Lemma scan_step_dq f count out tab (s rest : list N) : no_dq s = true -> has_char c_dollar s = false ->
  scan_literals (S f) false count out tab (dq s ++ rest) =
  scan_literals f false (counter_next count) (rev (PH (Z.to_N (counter_next count))) ++ out)
                (tset (Z.to_N (counter_next count)) s tab) rest.
Proof.
  intros Hno Hd.
  assert (E : exists c T', dq s ++ rest = c :: T') by (unfold dq; cbn [app]; eauto).
  destruct E as (c & T' & E). rewrite E. cbn [scan_literals]. rewrite <- E.
  rewrite (QuoteProofs.dq_not_sq_opener s rest), (QuoteProofs.dq_literal_found s rest Hno).
  assert (Hdd : has_char c_dollar (dq s) = false).
  { unfold dq. rewrite has_char_cons, has_char_app', Hd. reflexivity. }
  rewrite Hdd. rewrite (proj2 (QuoteProofs.unquote_quoted s)). reflexivity.
Qed.

Lemma quoted_at_tchar q c (X : list N) : tchar c = true -> (q = c_sq \/ q = c_dq) -> quoted_at q false (c :: X) = None.
Proof.
  intros Hc Hq. destruct (tchar_excl c Hc) as (_ & _ & Hsq & Hdq & _).
  assert (Hb : (c =? c_bsl) = false) by tch.
  unfold quoted_at, opener_at. cbn [count_bsl]. rewrite Hb. cbn [drop_n].
  destruct Hq as [-> | ->]; [rewrite Hsq|rewrite Hdq]; reflexivity.
Qed.

Lemma scan_step_char f count out tab c (X : list N) : tchar c = true ->
  scan_literals (S f) false count out tab (c :: X) = scan_literals f false count (c :: out) tab X.
Proof.
  intros Hc. cbn [scan_literals].
  rewrite (quoted_at_tchar c_sq c X Hc (or_introl eq_refl)), (quoted_at_tchar c_dq c X Hc (or_intror eq_refl)).
  assert (Hb : (c =? c_bsl) = false) by tch. rewrite Hb. reflexivity.
Qed.

Lemma achar_inv c : achar c = true -> (c =? HOLE) = false -> tchar c = true.
Proof. unfold achar. intros H E. rewrite E, orb_false_r in H. exact H. Qed.

Lemma format_string_len s : wlit s -> exists c r, format_string s = c :: r.
Proof. intros (_ & [[-> _]|[-> _]]); [unfold sq|unfold dq]; eauto. Qed.

Lemma scan_expand (A : list N) : forall ls fuel count out tab,
  Forall wlit ls -> forallb achar A = true -> nh A = length ls ->
  (length (expandL (map format_string ls) A) <= fuel)%nat ->
  scan_literals fuel false count out tab (expandL (map format_string ls) A) =
    (rev out ++ expandL (map PH (ids count (length ls))) A, cafter count (length ls),
     tupdate tab (combine (ids count (length ls)) ls)).
Proof.
  induction A as [|c A IH]; intros ls fuel count out tab Hls HA Hn Hf.
  - destruct ls as [|s ls]; [|discriminate Hn]. cbn [expandL length ids idsZ map cafter combine].
    destruct fuel; cbn [scan_literals]; rewrite ?app_nil_r; reflexivity.
  - cbn [forallb] in HA. apply andb_true_iff in HA. destruct HA as [Hc HA].
    destruct (c =? HOLE) eqn:E.
    + apply N.eqb_eq in E. subst c. cbn [nh] in Hn. rewrite N.eqb_refl in Hn.
      destruct ls as [|s ls]; [discriminate Hn|]. cbn [length] in Hn.
      inversion Hls as [|s' ls' Hs Hls']; subst.
      cbn [map] in Hf |- *. rewrite expandL_hole. rewrite expandL_hole in Hf.
      destruct (format_string_len s Hs) as (c0 & r0 & Efs).
      destruct fuel as [|f]; [rewrite Efs in Hf; cbn [app length] in Hf; lia|].
      assert (Hf' : (length (expandL (map format_string ls) A) <= f)%nat).
      { rewrite Efs in Hf. cbn [app length] in Hf. rewrite app_length in Hf. lia. }
      assert (Hstep : scan_literals (S f) false count out tab (format_string s ++ expandL (map format_string ls) A) =
                      scan_literals f false (counter_next count) (rev (PH (Z.to_N (counter_next count))) ++ out)
                                    (tset (Z.to_N (counter_next count)) s tab) (expandL (map format_string ls) A)).
      { destruct Hs as (Hd & [[E1 E2]|[E1 E2]]); rewrite E1.
        - apply scan_step_sq. exact E2.
        - apply scan_step_dq; assumption. }
      rewrite Hstep. rewrite (IH ls f _ _ _ Hls' HA ltac:(lia) Hf').
      cbn [length ids idsZ map cafter combine]. fold (ids (counter_next count) (length ls)).
      rewrite expandL_hole, tupdate_cons. cbn [fst snd].
      rewrite rev_app_distr, rev_involutive, <- app_assoc. reflexivity.
    + pose proof (achar_inv c Hc E) as Ht.
      rewrite (expandL_char _ c A E). rewrite (expandL_char _ c A E) in Hf.
      destruct fuel as [|f]; [cbn [length] in Hf; lia|].
      cbn [nh] in Hn. rewrite E in Hn. cbn [Nat.add] in Hn.
      rewrite (scan_step_char f count out tab c _ Ht).
      rewrite (IH ls f count (c :: out) tab Hls HA Hn ltac:(cbn [length] in Hf; lia)).
      cbn [rev]. rewrite <- app_assoc, (expandL_char _ c A E). reflexivity.
Qed.

(* ================================================================================================ *)
(* 4. two-character patterns                                                                        *)
(* ================================================================================================ *)

Fixpoint nopair (a b : N) (s : list N) : bool :=
  match s with
  | x :: ((y :: _) as s') => negb ((x =? a) && (y =? b)) && nopair a b s'
  | _ => true
  end.

Lemma nopair_cons_ne a b x (s : list N) : (x =? a) = false -> nopair a b (x :: s) = nopair a b s.
Proof. intros H. destruct s as [|y s]; [reflexivity|]. cbn [nopair]. rewrite H. reflexivity. Qed.

Lemma nopair_tail a b x (s : list N) : nopair a b (x :: s) = true -> nopair a b s = true.
Proof. destruct s as [|y s]; [reflexivity|]. cbn [nopair]. intros H. apply andb_true_iff in H. exact (proj2 H). Qed.

Lemma nopair_app_inv a b (x y : list N) : nopair a b (x ++ y) = true -> nopair a b x = true /\ nopair a b y = true.
Proof.
  induction x as [|c x IH]; intros H; [split; [reflexivity|exact H]|].
  destruct (IH (nopair_tail a b c _ H)) as [H1 H2]. split; [|exact H2].
  destruct x as [|d x]; [reflexivity|]. cbn [app nopair] in H. apply andb_true_iff in H.
  cbn [nopair]. rewrite (proj1 H). exact H1.
Qed.

(* x does not end with a *)
Lemma nopair_app_l a b (x y : list N) : nopair a b x = true -> nopair a b y = true ->
  (forall r, x <> r ++ [a]) -> nopair a b (x ++ y) = true.
Proof.
  induction x as [|c x IH]; intros Hx Hy Hl; [exact Hy|].
  destruct x as [|d x].
  - cbn [app]. rewrite nopair_cons_ne; [exact Hy|].
    apply N.eqb_neq. intros ->. exact (Hl [] eq_refl).
  - cbn [nopair] in Hx. apply andb_true_iff in Hx. destruct Hx as [H1 H2].
    change ((c :: d :: x) ++ y) with (c :: d :: (x ++ y)). cbn [nopair]. rewrite H1. cbn [andb].
    apply (IH H2 Hy). intros r Hr. apply (Hl (c :: r)). rewrite Hr. reflexivity.
Qed.

(* y does not start with b *)
Lemma nopair_app_r a b (x y : list N) : nopair a b x = true -> nopair a b y = true ->
  match y with [] => True | c :: _ => (c =? b) = false end -> nopair a b (x ++ y) = true.
Proof.
  induction x as [|c x IH]; intros Hx Hy Hh; [exact Hy|].
  destruct x as [|d x].
  - cbn [app]. destruct y as [|e y]; [reflexivity|]. cbn [nopair]. rewrite Hh, andb_false_r. exact Hy.
  - cbn [nopair] in Hx. apply andb_true_iff in Hx. destruct Hx as [H1 H2].
    change ((c :: d :: x) ++ y) with (c :: d :: (x ++ y)). cbn [nopair]. rewrite H1. exact (IH H2 Hy Hh).
Qed.

Lemma contains2_nopair a b (s : list N) : contains [a; b] s = false -> nopair a b s = true.
Proof.
  induction s as [|x s IH]; intros H; [reflexivity|].
  cbn [contains] in H. apply orb_false_iff in H. destruct H as [H1 H2].
  destruct s as [|y s]; [reflexivity|].
  change (nopair a b (x :: y :: s)) with (negb ((x =? a) && (y =? b)) && nopair a b (y :: s)).
  rewrite (IH H2), andb_true_r.
  cbn [starts_with] in H1. rewrite andb_true_r in H1. rewrite (N.eqb_sym x a), (N.eqb_sym y b), H1. reflexivity.
Qed.

Lemma nopair_nochar a b (s : list N) : has_char a s = false -> nopair a b s = true.
Proof.
  induction s as [|x s IH]; intros H; [reflexivity|].
  rewrite has_char_cons in H. apply orb_false_iff in H. destruct H as [Hx Hs]. rewrite N.eqb_sym in Hx.
  rewrite (nopair_cons_ne a b x s Hx). exact (IH Hs).
Qed.

Lemma find_comment_nopair (s : list N) : nopair c_slash c_slash s = true -> forall pc acc, find_comment pc acc s = None.
Proof.
  induction s as [|a s IH]; intros H pc acc; [reflexivity|].
  destruct s as [|b s']; [reflexivity|]. cbn [nopair] in H. apply andb_true_iff in H. destruct H as [H1 H2].
  cbn [find_comment]. apply negb_true_iff in H1. rewrite H1. cbn [andb]. apply IH. exact H2.
Qed.

Lemma find_block_nopair fuel : forall (s : list N), nopair c_slash c_star s = true -> find_block_comments fuel s = [].
Proof.
  induction fuel as [|f IH]; intros s H; [reflexivity|].
  destruct s as [|a s]; [reflexivity|]. destruct s as [|b r]; [reflexivity|].
  cbn [nopair] in H. apply andb_true_iff in H. destruct H as [H1 H2]. apply negb_true_iff in H1.
  cbn [find_block_comments]. rewrite H1. apply IH. exact H2.
Qed.

Lemma extract_block_comments_nopair comments (s : list N) : nopair c_slash c_star s = true ->
  extract_block_comments comments s = (s, []).
Proof. intros H. unfold extract_block_comments. rewrite (find_block_nopair _ s H). reflexivity. Qed.

Lemma chomp_prefix (l : list N) : exists q, l = fst (chomp_lf l) ++ q.
Proof.
  unfold chomp_lf. destruct (rev l) as [|c r] eqn:E.
  - apply ScalarProofs.rev_nil_inv in E. subst l. exists []. reflexivity.
  - destruct (c =? c_lf); cbn [fst].
    + exists [c]. rewrite <- (rev_involutive l), E. reflexivity.
    + exists []. rewrite app_nil_r. reflexivity.
Qed.

Lemma extract_line_comment_nopair comments count (l : list N) : nopair c_slash c_slash l = true ->
  extract_line_comment comments count l = (l, count, None).
Proof.
  intros H. unfold extract_line_comment. destruct (chomp_prefix l) as [q E].
  destruct (chomp_lf l) as [body nl]. cbn [fst] in E.
  assert (Hb : nopair c_slash c_slash body = true).
  { rewrite E in H. exact (proj1 (nopair_app_inv _ _ _ _ H)). }
  rewrite (find_comment_nopair body Hb). reflexivity.
Qed.

Lemma extract_line_comments_nopair comments (ls : list (list N)) :
  Forall (fun l => nopair c_slash c_slash l = true) ls ->
  forall count, extract_line_comments comments count ls = (ls, count, []).
Proof.
  induction 1 as [|l ls Hl _ IH]; intros count; [reflexivity|].
  cbn [extract_line_comments]. rewrite (extract_line_comment_nopair comments count l Hl), IH. reflexivity.
Qed.

Lemma extract_includes_none' dir (ls : list (list N)) : Forall (fun l => include_line_rest l = None) ls ->
  forall count, extract_includes dir count ls = (ls, count, []).
Proof.
  induction 1 as [|l ls Hl _ IH]; intros count; [reflexivity|].
  cbn [extract_includes]. rewrite Hl, IH. reflexivity.
Qed.

Lemma In_concat_sub {A} (l : list A) ls : In l ls -> exists pre post, concat ls = pre ++ l ++ post.
Proof.
  induction ls as [|x ls IH]; intros H; [destruct H|]. destruct H as [->|H].
  - exists [], (concat ls). reflexivity.
  - destruct (IH H) as (pre & post & E). exists (x ++ pre), post. cbn [concat]. rewrite E, app_assoc. reflexivity.
Qed.

Lemma nopair_lines a b (ls : list (list N)) : nopair a b (concat ls) = true -> Forall (fun l => nopair a b l = true) ls.
Proof.
  intros H. apply Forall_forall. intros l Hl. destruct (In_concat_sub l ls Hl) as (pre & post & E).
  rewrite E in H. apply nopair_app_inv in H. destruct H as [_ H]. apply nopair_app_inv in H. exact (proj1 H).
Qed.

(* ================================================================================================ *)
(* 5. the lexer on a filled text                                                                    *)
(* ================================================================================================ *)

(* a written literal: quote, single-line text without dollar and comment openers, the same quote again *)
Definition litform (f : list N) : Prop :=
  exists q s, f = q :: s ++ [q] /\ is_quote q = true /\ forallb lit_char s = true /\
              nopair c_slash c_slash s = true /\ nopair c_slash c_star s = true.

Lemma quote_facts q : is_quote q = true ->
  is_space q = false /\ (q =? c_slash) = false /\ (q =? c_star) = false /\ (q =? c_hash) = false /\
  is_linebreak q = false /\ (q =? c_lf) = false /\ (q =? c_cr) = false.
Proof. intros H. unfold is_linebreak. repeat split; uc; lia. Qed.

Lemma lit_char_facts c : lit_char c = true -> is_linebreak c = false /\ (c =? c_lf) = false /\ (c =? c_cr) = false /\ (c =? c_dollar) = false.
Proof.
  unfold lit_char. intros H. apply andb_true_iff in H. destruct H as [H1 H2].
  apply negb_true_iff in H1. apply negb_true_iff in H2. split; [exact H1|]. split; [|split; [|exact H2]].
  - unfold is_linebreak in H1. uc. lia.
  - unfold is_linebreak in H1. uc. lia.
Qed.

Lemma litform_chars (p : N -> bool) f : litform f ->
  (forall q, is_quote q = true -> p q = true) -> (forall c, lit_char c = true -> p c = true) -> forallb p f = true.
Proof.
  intros (q & s & -> & Hq & Hs & _) H1 H2. cbn [forallb]. rewrite (H1 q Hq). cbn [andb].
  rewrite forallb_app. cbn [forallb]. rewrite (H1 q Hq), andb_true_r. cbn [andb].
  apply forallb_forall. intros c Hc. apply H2. exact (forallb_In _ _ _ Hs Hc).
Qed.

Lemma litform_solid f : litform f -> solid f.
Proof.
  intros Hf. pose proof Hf as (q & s & E & Hq & Hs & _). destruct (quote_facts q Hq) as (Q1 & _).
  split; [|split].
  - unfold nolf. destruct (has_char c_lf f) eqn:Eh; [|reflexivity]. exfalso.
    unfold has_char in Eh. apply existsb_exists in Eh. destruct Eh as (x & Hx & Ex). apply N.eqb_eq in Ex. subst x.
    pose proof (litform_chars (fun c => negb (c =? c_lf)) f Hf) as Hp.
    assert (Hall : forallb (fun c => negb (c =? c_lf)) f = true).
    { apply Hp.
      - intros q' Hq'. destruct (quote_facts q' Hq') as (_ & _ & _ & _ & _ & A & _). rewrite A. reflexivity.
      - intros c Hc. destruct (lit_char_facts c Hc) as (_ & A & _). rewrite A. reflexivity. }
    pose proof (forallb_In _ _ _ Hall Hx) as Hbad. discriminate Hbad.
  - exists q, (s ++ [q]). split; [exact E|exact Q1].
  - exists (q :: s), q. split; [rewrite E; reflexivity|exact Q1].
Qed.

Lemma litform_nopair b f : litform f -> (b = c_slash \/ b = c_star) ->
  nopair c_slash b f = true /\ forall r, f <> r ++ [c_slash].
Proof.
  intros (q & s & -> & Hq & Hs & N1 & N2) Hb. destruct (quote_facts q Hq) as (_ & Q2 & Q3 & _). split.
  - rewrite nopair_cons_ne by exact Q2. apply nopair_app_r.
    + destruct Hb as [-> | ->]; assumption.
    + reflexivity.
    + destruct Hb as [-> | ->]; assumption.
  - intros r Hr. change (q :: s ++ [q]) with ((q :: s) ++ [q]) in Hr. apply app_inj_tail in Hr.
    destruct Hr as [_ Hr]. subst q. discriminate Q2.
Qed.

Lemma expandL_forallb (p : N -> bool) (A : list N) : forall fs,
  forallb p A = true -> Forall (fun f => forallb p f = true) fs -> forallb p (expandL fs A) = true.
Proof.
  induction A as [|c A IH]; intros fs HA Hfs; [reflexivity|].
  cbn [forallb] in HA. apply andb_true_iff in HA. destruct HA as [Hc HA].
  cbn [expandL]. destruct (c =? HOLE).
  - destruct fs as [|f fs].
    + cbn [forallb]. rewrite Hc. exact (IH [] HA Hfs).
    + inversion Hfs as [|f' fs' Hf Hfs']; subst. rewrite forallb_app, Hf. exact (IH fs HA Hfs').
  - cbn [forallb]. rewrite Hc. exact (IH fs HA Hfs).
Qed.

Lemma expandL_tchars (A : list N) : forall fs,
  forallb achar A = true -> Forall (fun f => forallb tchar f = true) fs -> (nh A <= length fs)%nat ->
  forallb tchar (expandL fs A) = true.
Proof.
  induction A as [|c A IH]; intros fs HA Hfs Hn; [reflexivity|].
  cbn [forallb] in HA. apply andb_true_iff in HA. destruct HA as [Hc HA].
  cbn [expandL nh] in *. destruct (c =? HOLE) eqn:E.
  - destruct fs as [|f fs]; [cbn [length] in Hn; lia|].
    inversion Hfs as [|f' fs' Hf Hfs']; subst. rewrite forallb_app, Hf. apply (IH fs HA Hfs'). cbn [length] in Hn. lia.
  - cbn [forallb]. rewrite (achar_inv c Hc E). exact (IH fs HA Hfs Hn).
Qed.

Lemma forallb_nochar x (s : list N) : forallb (fun c => negb (c =? x)) s = true -> has_char x s = false.
Proof.
  intros H. unfold has_char. destruct (existsb (N.eqb x) s) eqn:E; [|reflexivity].
  apply existsb_exists in E. destruct E as (y & Hy & Ey). apply N.eqb_eq in Ey. subst y.
  pose proof (forallb_In _ _ _ H Hy) as Hb. cbn beta in Hb. rewrite N.eqb_refl in Hb. discriminate Hb.
Qed.

Lemma achar_ne x (A : list N) : achar x = false -> forallb achar A = true -> forallb (fun c => negb (c =? x)) A = true.
Proof.
  intros Hx HA. apply forallb_forall. intros c Hc. pose proof (forallb_In _ _ _ HA Hc) as H. cbn beta.
  destruct (c =? x) eqn:E; [|reflexivity]. apply N.eqb_eq in E. subst c. congruence.
Qed.

Lemma nopair_expand b (A : list N) : (b = c_slash \/ b = c_star) -> forall fs,
  forallb achar A = true -> Forall litform fs -> nopair c_slash b (expandL fs A) = true.
Proof.
  intros Hb. induction A as [|c A IH]; intros fs HA Hfs; [reflexivity|].
  cbn [forallb] in HA. apply andb_true_iff in HA. destruct HA as [Hc HA].
  assert (Hcs : (c =? c_slash) = false).
  { destruct (c =? c_slash) eqn:E; [|reflexivity]. apply N.eqb_eq in E. subst c. discriminate Hc. }
  cbn [expandL]. destruct (c =? HOLE).
  - destruct fs as [|f fs].
    + rewrite nopair_cons_ne by exact Hcs. exact (IH [] HA Hfs).
    + inversion Hfs as [|f' fs' Hf Hfs']; subst. destruct (litform_nopair b f Hf Hb) as [N1 N2].
      apply nopair_app_l; [exact N1|exact (IH fs HA Hfs')|exact N2].
  - rewrite nopair_cons_ne by exact Hcs. exact (IH fs HA Hfs).
Qed.

(* include directives: the first visible character of every line is not a hash *)
Definition inc_pre (p : list N) : Prop :=
  ws_run p \/ exists w c r, p = w ++ c :: r /\ ws_run w /\ is_space c = false /\ (c =? c_hash) = false.

Lemma ws_run_In (w : list N) : ws_run w -> forall c, In c w -> is_space c = true.
Proof. intros H. unfold ws_run in H. rewrite Forall_forall in H. exact H. Qed.

Lemma inc_pre_none p x : inc_pre p -> (x = [] \/ x = [c_lf]) -> include_line_rest (p ++ x) = None.
Proof.
  intros Hp Hx. unfold include_line_rest. destruct Hp as [Hw|(w & c & r & -> & Hw & Hc & Hh)].
  - rewrite (lstrip_ws p x (ws_run_In p Hw)). destruct Hx as [-> | ->]; reflexivity.
  - rewrite <- app_assoc. rewrite (lstrip_ws w _ (ws_run_In w Hw)). cbn [app lstrip]. rewrite Hc, Hh. reflexivity.
Qed.

Lemma inc_pre_app p f : inc_pre p -> (exists c r, f = c :: r /\ is_space c = false /\ (c =? c_hash) = false) ->
  inc_pre (p ++ f).
Proof.
  intros Hp (c & r & -> & Hc & Hh). destruct Hp as [Hw|(w & c0 & r0 & -> & Hw & Hc0 & Hh0)].
  - right. exists p, c, r. repeat split; assumption.
  - right. exists w, c0, (r0 ++ c :: r). rewrite <- app_assoc. repeat split; assumption.
Qed.

Lemma inc_pre_snoc p c : inc_pre p -> (c =? c_hash) = false -> inc_pre (p ++ [c]).
Proof.
  intros Hp Hh. destruct (is_space c) eqn:Es.
  - destruct Hp as [Hw|(w & c0 & r0 & -> & Hw & Hc0 & Hh0)].
    + left. apply Forall_app. split; [exact Hw|]. constructor; [exact Es|constructor].
    + right. exists w, c0, (r0 ++ [c]). rewrite <- app_assoc. repeat split; assumption.
  - apply inc_pre_app; [exact Hp|]. exists c, []. repeat split; assumption.
Qed.

Lemma splitlines_go_nolb (f : list N) : forallb (fun c => negb (is_linebreak c)) f = true ->
  forall cur rest, splitlines_go cur (f ++ rest) = splitlines_go (rev f ++ cur) rest.
Proof.
  induction f as [|c f IH]; intros H cur rest; [reflexivity|].
  cbn [forallb] in H. apply andb_true_iff in H. destruct H as [Hc Hf]. apply negb_true_iff in Hc.
  assert (Hcr : (c =? c_cr) = false) by (unfold is_linebreak in Hc; uc; lia).
  cbn [app splitlines_go]. rewrite Hcr, Hc, (IH Hf). cbn [rev]. rewrite <- app_assoc. reflexivity.
Qed.

Lemma litform_nolb f : litform f -> forallb (fun c => negb (is_linebreak c)) f = true.
Proof.
  intros Hf. apply (litform_chars _ f Hf).
  - intros q Hq. destruct (quote_facts q Hq) as (_ & _ & _ & _ & A & _). rewrite A. reflexivity.
  - intros c Hc. destruct (lit_char_facts c Hc) as (A & _). rewrite A. reflexivity.
Qed.

Lemma achar_line c : achar c = true ->
  (c =? c_cr) = false /\ (c =? c_hash) = false /\ (is_linebreak c = true -> c = c_lf).
Proof.
  unfold achar. intros H. apply orb_true_iff in H. destruct H as [H|H].
  - destruct (tchar_excl c H) as (_ & A & _ & _ & _ & B & C). repeat split; assumption.
  - apply N.eqb_eq in H. subst c. repeat split; try reflexivity. intros Hb. discriminate Hb.
Qed.

Lemma includes_expand (A : list N) : forall fs cur,
  forallb achar A = true -> Forall litform fs -> inc_pre (rev cur) ->
  Forall (fun l => include_line_rest l = None) (splitlines_go cur (expandL fs A)).
Proof.
  induction A as [|c A IH]; intros fs cur HA Hfs Hp.
  - cbn [expandL splitlines_go]. destruct cur as [|x cur]; [constructor|].
    constructor; [|constructor]. rewrite <- (app_nil_r (rev (x :: cur))). apply inc_pre_none; [exact Hp|left; reflexivity].
  - cbn [forallb] in HA. apply andb_true_iff in HA. destruct HA as [Hc HA].
    destruct (achar_line c Hc) as (Hcr & Hh & Hlb).
    assert (Hreal : forall fs', Forall litform fs' ->
              Forall (fun l => include_line_rest l = None) (splitlines_go cur (c :: expandL fs' A))).
    { intros fs' Hfs'. cbn [splitlines_go]. rewrite Hcr. destruct (is_linebreak c) eqn:El.
      - rewrite (Hlb eq_refl). constructor.
        + cbn [rev]. apply inc_pre_none; [exact Hp|right; reflexivity].
        + apply IH; [exact HA|exact Hfs'|left; constructor].
      - apply IH; [exact HA|exact Hfs'|]. cbn [rev]. apply inc_pre_snoc; assumption. }
    cbn [expandL]. destruct (c =? HOLE) eqn:E.
    + destruct fs as [|f fs]; [apply Hreal; exact Hfs|].
      inversion Hfs as [|f' fs' Hf Hfs']; subst.
      rewrite (splitlines_go_nolb f (litform_nolb f Hf)). apply IH; [exact HA|exact Hfs'|].
      rewrite rev_app_distr, rev_involutive. apply inc_pre_app; [exact Hp|].
      destruct Hf as (q & s & -> & Hq & _). destruct (quote_facts q Hq) as (Q1 & _ & _ & Q4 & _).
      exists q, (s ++ [q]). repeat split; assumption.
    + apply Hreal. exact Hfs.
Qed.

(* the characters of remove_line_endings *)
Lemma forallb_lstrip (p : N -> bool) (s : list N) : forallb p s = true -> forallb p (lstrip s) = true.
Proof.
  intros H. destruct (lstrip_split s) as (w & E & _). rewrite E, forallb_app in H.
  apply andb_true_iff in H. exact (proj2 H).
Qed.
Lemma forallb_rstrip (p : N -> bool) (s : list N) : forallb p s = true -> forallb p (rstrip s) = true.
Proof.
  intros H. destruct (rstrip_split s) as (w & E & _). rewrite E, forallb_app in H.
  apply andb_true_iff in H. exact (proj1 H).
Qed.
Lemma forallb_lf2sp (p : N -> bool) (s : list N) : p c_sp = true -> forallb p s = true -> forallb p (map lf2sp s) = true.
Proof.
  intros Hsp. induction s as [|c s IH]; intros H; [reflexivity|]. cbn [forallb] in H. apply andb_true_iff in H.
  destruct H as [Hc Hs]. cbn [map forallb]. rewrite (IH Hs), andb_true_r. unfold lf2sp.
  destruct (c =? c_lf); [exact Hsp|exact Hc].
Qed.

Lemma achar_rle (A : list N) : forallb achar A = true -> forallb achar (remove_line_endings A) = true.
Proof.
  intros H. rewrite remove_line_endings_eq. unfold strip. apply forallb_rstrip, forallb_lstrip, forallb_lf2sp; [reflexivity|exact H].
Qed.

Lemma nh_rle (A : list N) : nh (remove_line_endings A) = nh A.
Proof.
  rewrite remove_line_endings_eq. rewrite <- (nh_filter (strip _)), fl_strip, fl_map. apply nh_filter.
Qed.

Lemma nh_rts (A : list N) : nh (remove_trailing_spaces A) = nh A.
Proof. rewrite <- (nh_filter (remove_trailing_spaces _)), fl_rts. apply nh_filter. Qed.

Lemma rle_expand (A : list N) fs : Forall solid fs ->
  remove_line_endings (expandL fs A) = expandL fs (remove_line_endings A).
Proof.
  intros Hfs. rewrite !remove_line_endings_eq. rewrite (map_expand _ fs (solid_nolf fs Hfs)).
  apply strip_expand. exact Hfs.
Qed.

(* the strings the writer quotes *)
Definition qlit (s : list N) : Prop := quotable s = true /\ is_quoted_form s = true.

Lemma quotable_inv s : quotable s = true ->
  forallb lit_char s = true /\ no_reserved_word s = true /\ contains [c_slash; c_slash] s = false /\
  contains [c_slash; c_star] s = false /\ (has_char c_sq s && has_char c_dq s) = false /\ quote_at_end s = false.
Proof.
  unfold quotable. intros H.
  apply andb_true_iff in H. destruct H as [H H6]. apply andb_true_iff in H. destruct H as [H H5].
  apply andb_true_iff in H. destruct H as [H H4]. apply andb_true_iff in H. destruct H as [H H3].
  apply andb_true_iff in H. destruct H as [H1 H2].
  apply negb_true_iff in H3, H4, H5, H6. repeat split; assumption.
Qed.

Lemma lit_chars_nodollar (s : list N) : forallb lit_char s = true -> has_char c_dollar s = false.
Proof.
  intros H. apply forallb_nochar. apply forallb_forall. intros c Hc.
  destruct (lit_char_facts c (forallb_In _ _ _ H Hc)) as (_ & _ & _ & A). cbn beta. rewrite A. reflexivity.
Qed.

Lemma not_self_wrapped q (s : list N) : s <> q :: s ++ [q].
Proof. intros E. apply (f_equal (@length N)) in E. cbn [length] in E. rewrite app_length in E. cbn [length] in E. lia. Qed.

Lemma qlit_form s : qlit s ->
  has_char c_dollar s = false /\
  ((format_string s = sq s /\ no_sq s = true) \/ (format_string s = dq s /\ no_dq s = true)).
Proof.
  intros [Hq Hf]. destruct (quotable_inv s Hq) as (H1 & _ & _ & _ & H5 & _).
  pose proof (lit_chars_nodollar s H1) as Hd. split; [exact Hd|].
  destruct (QuoteProofs.format_string_choice s Hd H5) as [A|[A|(A & _)]]; [left; exact A|right; exact A|].
  exfalso. unfold is_quoted_form in Hf. rewrite A in Hf. apply orb_true_iff in Hf.
  destruct Hf as [Hf|Hf]; apply SDictProofs.str_eqb_eq in Hf; exact (not_self_wrapped _ s Hf).
Qed.

Lemma qlit_wlit s : qlit s -> wlit s.
Proof. exact (qlit_form s). Qed.

Lemma qlit_litform s : qlit s -> litform (format_string s).
Proof.
  intros Hs. destruct (qlit_form s Hs) as (_ & Hc). destruct Hs as [Hq _].
  destruct (quotable_inv s Hq) as (H1 & _ & H3 & H4 & _).
  destruct Hc as [[-> _]|[-> _]]; [exists c_sq, s|exists c_dq, s]; (split; [reflexivity|]); (split; [reflexivity|]);
    (split; [exact H1|]); split; apply contains2_nopair; assumption.
Qed.

Lemma Forall_map_iff {A B} (P : B -> Prop) (f : A -> B) l : Forall (fun x => P (f x)) l -> Forall P (map f l).
Proof. induction 1; cbn [map]; constructor; assumption. Qed.

(* the placeholders are bare tokens *)
Lemma pad6_digits k : forallb is_digit (pad6 k) = true.
Proof.
  unfold pad6. rewrite forallb_app. apply andb_true_iff. split.
  - generalize (6 - length (N_to_dec k))%nat. intros n. induction n as [|n IH]; [reflexivity|exact IH].
  - destruct (ScalarProofs.N_to_dec_spec k) as [[Hd _] _]. apply forallb_forall. intros c Hc.
    unfold TypeTable.digits in Hd. rewrite Forall_forall in Hd. exact (Hd c Hc).
Qed.

Lemma PH_simple k : forallb simple_char (PH k) = true.
Proof.
  unfold PH, placeholder. rewrite forallb_app. apply andb_true_iff. split; [reflexivity|].
  apply forallb_forall. intros c Hc. pose proof (forallb_In _ _ _ (pad6_digits k) Hc) as Hd.
  unfold simple_char, is_word. rewrite Hd. reflexivity.
Qed.

Lemma PH_tchars k : forallb tchar (PH k) = true.
Proof.
  apply forallb_forall. intros c Hc. apply simple_tchar. exact (forallb_In _ _ _ (PH_simple k) Hc).
Qed.

Lemma ids_length c n : length (ids c n) = n.
Proof. unfold ids. rewrite map_length. revert c. induction n as [|n IH]; intros c; [reflexivity|]. cbn [idsZ length]. rewrite IH. reflexivity. Qed.

Theorem lex_filled comments dir count (A : list N) ls :
  forallb achar A = true -> Forall qlit ls -> nh A = length ls ->
  lex comments dir count (expandL (map format_string ls) A) =
  mkLexed (tokenize (separate_delimiters (expandL (map PH (ids count (length ls))) (remove_line_endings A))))
          (cafter count (length ls)) [] [] [] [] (tupdate [] (combine (ids count (length ls)) ls)).
Proof.
  intros HA Hls Hn.
  set (fs := map format_string ls). set (W := expandL fs A).
  assert (Hlf : Forall litform fs).
  { unfold fs. apply Forall_map_iff. revert Hls. apply Forall_impl. exact qlit_litform. }
  assert (Hsol : Forall solid fs) by (revert Hlf; apply Forall_impl; exact litform_solid).
  assert (Hcr : has_char c_cr W = false).
  { apply forallb_nochar. unfold W. apply expandL_forallb.
    - apply achar_ne; [reflexivity|exact HA].
    - revert Hlf. apply Forall_impl. intros f Hf. apply (litform_chars _ f Hf).
      + intros q Hq. destruct (quote_facts q Hq) as (_ & _ & _ & _ & _ & _ & B). rewrite B. reflexivity.
      + intros c Hc. destruct (lit_char_facts c Hc) as (_ & _ & B & _). rewrite B. reflexivity. }
  assert (Hcat : concat (splitlines W) = W) by (exact (concat_splitlines W Hcr [])).
  assert (Hl1 : Forall (fun l => nopair c_slash c_slash l = true) (splitlines W)).
  { apply nopair_lines. rewrite Hcat. unfold W. apply nopair_expand; [left; reflexivity|exact HA|exact Hlf]. }
  assert (Hl2 : Forall (fun l => include_line_rest l = None) (splitlines W)).
  { unfold splitlines, W. apply includes_expand; [exact HA|exact Hlf|left; constructor]. }
  assert (Hb : nopair c_slash c_star W = true).
  { unfold W. apply nopair_expand; [right; reflexivity|exact HA|exact Hlf]. }
  pose proof (achar_rle A HA) as HA2.
  assert (Hn2 : nh (remove_line_endings A) = length ls) by (rewrite nh_rle; exact Hn).
  assert (Hw : Forall wlit ls) by (revert Hls; apply Forall_impl; exact qlit_wlit).
  assert (Ht4 : forallb tchar (expandL (map PH (ids count (length ls))) (remove_line_endings A)) = true).
  { apply expandL_tchars; [exact HA2| |rewrite map_length, ids_length, Hn2; lia].
    apply Forall_map_iff. apply Forall_forall. intros k _. apply PH_tchars. }
  unfold lex. cbv zeta.
  rewrite (extract_line_comments_nopair comments _ Hl1 count).
  rewrite (extract_includes_none' dir _ Hl2 count).
  rewrite Hcat.
  rewrite (extract_block_comments_nopair comments W Hb).
  unfold W at 1. rewrite (rle_expand A fs Hsol).
  unfold extract_string_literals, fs.
  rewrite (scan_expand (remove_line_endings A) ls _ count [] [] Hw HA2 Hn2 (Nat.le_succ_diag_r _)).
  cbn [rev app].
  rewrite (extract_expressions_none _ _ (tchars_no c_dq _ Ht4 eq_refl) (tchars_no c_dollar _ Ht4 eq_refl)).
  reflexivity.
Qed.
